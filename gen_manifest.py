#!/usr/bin/env python3
"""Generates MANIFEST.json from the table below (single source of truth for what is claimed)."""
import json, subprocess

ALL = ["C%02d" % i for i in range(1, 19)]

# id -> (technique, level text, level note, design_ref)
CLAIMED = {
 "C07": ("differential runtime monitor: real backends vs. sequential map-with-expiry reference model over seeded random op sequences",
         "Exploration: every result of seeded random operation sequences on the three real backends is compared online with a reference map-with-expiry; evidence lists op counts and the (op,state) pairs covered. Values include a non-comparable type; contexts are reused and SkipRead-wrapped; each case runs under a blocked-call detector; a volume family (9000-45000 entries) checks Len/Walk/reads/deletes. Held on what was observed, not for all sequences.",
         "Wall clock not stepped; TTL margins >=0.5s separate fresh/expired; the reference model (c07_seqmodel.go) is the trusted oracle.",
         "2/C07"),
 "C10": ("runtime monitor with wall-clock bracketing: expiry read back through Walk/ErrWithExpiredItem vs. documented TTL interval",
         "Exploration: seeded writes over TTL magnitudes 1ns..100y (both signs), all jitter settings and the three backends; each stored expiry is checked against the documented interval using clock readings taken around the Write, reads on either side of the expiry are checked, and jitter distribution blocks check two-sidedness and width. The measured write may be a Store, an overwrite of an entry with a very different expiry (all eviction strategies), or made by Failover/FailoverOf on behalf of a context with a history of failed builds.",
         "Wall clock not stepped; eps = 2ns + |T|*2^-52 for float rounding; distribution thresholds have negligible false-alarm probability (<1e-90).",
         "2/C10"),
 "C11": ("runtime monitor on the real janitor goroutine, paused between cycles at its EvictionNeeded call-out, vs. reference model of survivors",
         "Exploration: the real janitor (1ms interval) is stepped cycle by cycle; after each cycle Len/Walk/Read are compared with a model in which exactly the entries expired more than DeleteExpiredAfter ago disappear (finite and Unlimited TimeToLive, late first per-call TTL, hostile metric call-outs of DeleteAll/ExpireAll performing racing writes); further families: real-time aging across a 30ms DeleteExpiredAfter with sound brackets, free-running janitor stress (fresh rewrites and ExpireAll-renewed entries must survive), and the janitor parked at the verif pause point between inspecting and deleting an entry (SyncMap). Later additions: clean-out followed by late TTL writes, content arriving by Restore, a bounded-progress family next to a fast items reporter (verdict in reporter ticks), and a stepped cycle over 12000-32000 long-expired entries.",
         "Gate relies on the janitor consulting EvictionNeeded once per cycle when no limit is breached (true for the code under test; a watchdog turns a missing call-out into inconclusive). TTL class margins >=1s vs. a 1h boundary.",
         "2/C11"),
 "C12": ("runtime monitor on the real janitor goroutine gated at EvictionNeeded / Stats.Add(cache_evict); amount, metric and rank-order oracle",
         "Exploration: seeded (limit, size, fraction, strategy, trigger incl. sys-memory limits, access history, long-expired entries purged by the same cycle, content arriving by Write / Dump+Restore / ExpireAll) cases; exactly one eviction cycle is let through and judged for trigger, amount (within one entry), cache_evict metric and strategy order (max rank removed <= min rank kept, ties free); plus a convergence family (free-running janitor, late writes over the limit, bounded progress). LFU cases with 4200-16200 serves per entry. Colliding key pairs on SyncMap; ExpireAll between access history and eviction (LRU/LFU ranks must survive).",
         "Harness-side rank bookkeeping (expiry from a pre-eviction Walk, last-read order with a strictly advancing clock, read counts) is the trusted oracle; serves of fresh entries and - after an ExpireAll - of expired entries (stale serves) both count, as in the code under test.",
         "2/C12"),
 "C13": ("differential runtime monitor: Walk/Read of restored caches vs. source across all backend pairings and relay chains",
         "Exploration: seeded entry sets (0..400, hostile keys, nil/zero/populated registered values, no / near / far-past / far-future expiry) are dumped and restored across every pairing and relayed 1..4 times into receivers of varying configuration (Unlimited/default TTL, small count limit); every relay must equal the source; concurrent dumps of one cache must both be complete; truncated streams must yield a subset. A failing Dump may precede the real one; a volume family (9000-45000 entries) is judged against what was written.",
         "reflect.DeepEqual over a value alphabet chosen to avoid gob's nil-vs-empty ambiguity is the equality; gob itself is trusted.",
         "2/C13"),
 "C15": ("reference-model monitor with complete deleter-fault enumeration per scenario, plus concurrent stress with conservation oracle",
         "Fault enumeration inside exploration: each seeded incidence structure (with cache operations between labelling and invalidation) is rebuilt and run fault-free and once per delete position with an injected failure at that position, followed by recovery and retry; a hostile deleter labels another key from inside Delete; completeness, precision, returned count (vs. measured removals), error identity and no-panic are judged. Concurrent AddLabels/AddCache/Invalidate runs are judged at quiescence (nothing labelled survives; counts add up). A bulk family puts 1000-10009 keys under one label.",
         "Index model in c15_labels.go is the oracle; labels consumed by a successful invalidation are not re-applied by the workloads.",
         "2/C15"),
 "C17": ("offline checker over callback log and caller timestamps (ordering, exactly-once, non-overlap, sound monotonic-clock bracketing)",
         "Exploration: seeded bursts, sequences and chain patterns (slow first run, caller queued on the lock) of 1..32 callers, 0..5 callbacks (one may be registered during a run), several SkipIntervals (also changed between phases); accepted calls run all registered callbacks once in order, rejected run none, groups never interleave, consecutive accepted calls are >= SkipInterval apart (bracketing inequality tightened by the end of the previous run), and a call that begins >= SkipInterval after every earlier call returned must be accepted. Also: callers with cancelled contexts, and a callback that panics (recovered by the caller) - the run counts as accepted, nothing is left locked. Intervals include 900us and 20.9ms; a cascade family invalidates never-run Invalidators from inside a callback and with a context captured there.",
         "Only bracketing inequalities on the monotonic clock are used, so load cannot cause false alarms (it only reduces detection power).",
         "2/C17"),
 "C01": ("online monitor of builder [entry,exit] intervals over steered (seeded scheduler at every call-out) and free-running stress executions of the real Failover",
         "Exploration: thousands of seeded schedules of 2..12 concurrent Gets over 1..3 keys across the configuration product, both APIs, fault injection, caller misbehaviour (buffer-reuse family), context-error and nil builder outcomes, slow builders with UpdateTTL=1ms; ObserveMutability on in a quarter of the cases; forced Gets issued with a context kept from an earlier build; once per run > 10000 builds in flight drain while one build is still parked; an online monitor flags any instant with two builders active for one key. Evidence counts contended runs and distinct schedule signatures.",
         "Interleavings inside library critical sections are not explored (atomic by construction); the steered executor uses runtime.Stack statuses and only ever yields 'inconclusive' on malfunction.",
         "2/C01"),
 "C02": ("offline provenance checker over recorded event logs with unique tokens; backend fault injection at every call index in turn",
         "Exploration with embedded fault enumeration: every value/error returned by Get must be a token/error of the same key that was pre-populated, built (and finished before the return) or injected by the backend; one third of the cases are re-run with a backend failure at every call index; a backend mode reports expiry as the bare ErrExpired sentinel. Further: a typed backend passing through a foreign (non-generic, wrongly typed) expired-item error, builder errors wrapping cache.ErrNotFound, and a foreign ExpireAll of the backend at a chosen logger call-out.",
         "Token uniqueness per run; harness builders never produce zero values.",
         "2/C02"),
 "C03": ("complete enumeration of the finite decision table against the real code, judged by documented outcome classes plus differential agreement across APIs/backends",
         "Exhaustive over the table stated in the property (168 consistent cells x 3 pairings x repetitions alternating SyncRead and plain / pre-cancelled / deadlined caller contexts): result class, builder invocation count/timing, backend content, failure cache and lock state after quiescence; plus a pass in which the entry is deleted while the builder runs. Further passes: ObserveMutability with non-comparable values, MaxStaleness=MaxInt64, a history pass (earlier builder panic on the key), and the too-stale rows on a Failover that owns its backend with a running janitor.",
         "Expected classes are transcribed from README/FailoverConfig docs (c03_table.go); for 'failure cached + stale value' both documented readings are accepted.",
         "2/C03"),
 "C04": ("logical-deadlock detection under the steered executor, lock-table invariant hook at quiescence, black-box follow-up Gets, write-placement checker over the event log",
         "Exploration: same schedule families as C01 with callers cancelling contexts and rewriting key buffers after return, failing builders and rejected backend writes; a run is refuted by a logical deadlock, a lock left after quiescence, a build result written under another key, or a follow-up Get that cannot rebuild. Further: mass expiration (hundreds, once >10000, of parked background builds), a lost-update oracle for SyncRead runs, and sustained requests of a failed key (must rebuild after 2 x FailedUpdateTTL).",
         "Unbounded liveness is restated as deadlock freedom on explored schedules and bounded progress in free mode.",
         "2/C04"),
 "C05": ("event-log monitors (no build after stored success with SyncRead; no build within 0.9*FailedUpdateTTL of a failure) plus sequential executable model",
         "Exploration: concurrent bursts with and without SyncRead (steered/free, yield points also at the failure-cache read), sequential scripts with the failing invocation at every position x FailedUpdateTTL {default,1h,-1} judged against an executable model, re-expire sequences (stale value, failing rebuild, repeated ExpireAll), failure-cache expiry bracket and rebuild after simulated elapse (Errors.ExpireAll). Further: rebuild to an equal value with UpdateTTL=1ms (no second build after UpdateTTL), done caller contexts, and a Failover that owns a backend with eviction limits (failure cache unaffected).",
         "Suppression is only judged for events whose monotonic timestamps are within 0.9*FailedUpdateTTL of the failure; SkipRead is documented to bypass cache reads including the failure cache.",
         "2/C05"),
 "C06": ("context observation inside harness builders/backend wrapper vs. reference TTL fold; detached-context assertions for background builds; stored expiry vs. C10 interval",
         "Exploration: seeded caller TTL cells and builder WithTTL update lists over all Get paths (cold, sync update, background update, waiter), cancelled/pre-cancelled/deadlined callers, SkipRead on fresh entries, ObserveMutability with builders returning the already cached value; per-Get accounting of the refresh store and the final store. Further: pointer-valued mode (a builder returning the cached value returns the identical pointer) and a TTL-scopes family (outer/inner/sibling WithTTL scopes with equal, zero and different durations).",
         "Without a caller TTL cell no propagation is promised: backend default or builder minimum accepted.",
         "2/C06"),
 "C16": ("Go race detector (+checkptr) over generated concurrent client programs; report blocks counted from GORACE logs; runtime fatal errors detected by child death",
         "Exploration / non-detection: every unordered pair (incl. self-pairs) of the public-operation catalogue on shared backends (3 kinds x 3 strategies, janitor at 1ms, items reporter) and Failover/FailoverOf (also over a fault-injecting user backend)/Invalidator/HTTP export/a failing user Deleter, plus seeded k-subsets, each op looped by two goroutines under -race with halt_on_error=0; any report with a library frame or a runtime concurrent-map fault is a violation. Write ops also rewrite one shared pointer value.",
         "The race detector only sees executed accesses; claim is 'no report in the programs x repetitions executed'. A report without a library frame fails the check as broken.",
         "2/C16"),
 "C08": ("porcupine linearizability checking of recorded client-boundary histories against a per-key nondeterministic register model, plus a walk monitor",
         "Exploration: thousands of short concurrent histories (2..16 clients, 3..6 keys incl. a hash-colliding pair, op-mix profiles incl. one restricted to the colliding pair, with/without LRU/LFU, with the real janitor evicting or running its cleanup pass over long-expired entries) are recorded with one atomic logical clock and checked per key; batch operations, evictions and collision-partner writes are inserted into each affected partition as (possibly nondeterministic) operations; Walk is checked for foreign entries and for exactly-once reporting of keys stable during the walk. Clients reuse their key buffers; a volume walk family (14000-54000 stable entries, concurrent writers on other keys) checks exactly-once at scale.",
         "Model in c08_lin.go; batch ops act on each key at one instant within the call; checker timeout = inconclusive.",
         "2/C08"),
 "C09": ("collision-slot reference model over constructed xxhash64 collisions; buffer-overwrite-after-call monitor; gated background build scenario",
         "Exploration: seeded op sequences over families of 2..4 constructed colliding 64-byte keys on all backends and eviction strategies, through backends, Failover/FailoverOf, label index and Dump/Restore; after every key-taking call the passed buffer is overwritten and stored keys/labels/background-build targets are re-checked; concurrent rounds Delete(k1) vs Write(k2) on a colliding pair (ownership oracle). A third of the colliding families use long keys (common suffix up to 4000 bytes); background builds may fail (failure remembered under the original key only); a forced Get of the partner key runs while key 0's build is parked.",
         "Collision construction is specific to xxhash64 seed 0 and verified at run time (Sum64 equality asserted).",
         "2/C09"),
 "C14": ("in-process RoundTripper driving the real Export handler and Import; differential content check; child processes for types-hash determinism and a two-process transfer",
         "Exploration: seeded name subsets on both sides (incl. names needing query escaping), all backend families, transport faults on all or on one cache only (tampered hash, truncated/failing body; the transport honours the request context); types hash evaluated in fresh child processes over permutations/multisets/variadic groupings of a 12-type pool; a separate exporter process with a different type set must be refused. A child process keeps one Export handler alive across later type registrations (equal hash served, earlier hashes refused).",
         "GobTypesHashReset (test helper) is out of scope; gob and net/http are trusted.",
         "2/C14"),
 "C18": ("harness StatsTracker ledger vs. ground truth from the harness' own operation/event log at quiescence (conservation / exactly-once)",
         "Exploration: backend-only sequential and concurrent workloads (each goroutine owns its keys so removals are known exactly; ExpireAll/DeleteAll at barriers), a conservation family (unique keys, racing Delete/DeleteAll: cache_delete == writes - final Len), Failover/FailoverOf runs from the C01 generator (steered and free, cancelling callers, context-error outcomes) and panicking builders; every metric and the documented sums are compared per name label. Bulk phases (3000-8000 entries) before DeleteAll/ExpireAll barriers; an eviction family asserts cache_delete == successful Delete calls.",
         "No evictions except in the eviction family; no backend fault injection in these workloads (cache_refreshed counts attempts).",
         "2/C18"),
}

NOT_YET = "check not built yet in this round (planned, see DESIGN.md section 2)"

def main():
    hooks_commits = []
    try:
        out = subprocess.run(["git", "-C", "/repo", "log", "--format=%h %s"], capture_output=True, text=True).stdout
        hooks_commits = [l.split()[0] for l in out.splitlines() if l.split(" ", 1)[1].startswith("verif:")]
    except Exception:
        pass
    checks = []
    for pid in ALL:
        if pid not in CLAIMED:
            continue
        tech, text, note, ref = CLAIMED[pid]
        checks.append({
            "property_id": pid,
            "quick_cmd": "./check %s quick" % pid,
            "thorough_cmd": "./check %s thorough" % pid,
            "evidence_file": "evidence/%s.json" % pid,
            "replay_cmd_template": "./check %s --replay {path}" % pid,
            "engine": "vh",
            "level_claimed": {"category": "exploration", "text": text, "design_ref": "DESIGN.md section " + ref},
            "level_note": note,
            "technique": tech,
        })
    m = {
        "version": 1,
        "setup_cmd": "./setup.sh",
        "hooks": {
            "guard": "verif",
            "enable": "go build -tags verif (the harness module replaces github.com/bool64/cache with /repo)",
            "baseline_off_cmd": "cd /repo && GOFLAGS=-mod=mod GOPROXY=off GOSUMDB=off GOTOOLCHAIN=local go test -vet=off -count=1 -timeout 25m ./...",
            "source_commits": hooks_commits,
            "add_only": True,
        },
        "engines": [{
            "name": "vh",
            "path": "harness/",
            "serves_properties": sorted(CLAIMED),
            "kind_free_text": "Go harness (runtime monitors, reference models, history checkers, race-detector driver); one child process per batch",
        }],
        "checks": checks,
        "not_applicable": [{"property_id": p, "reason": NOT_YET} for p in ALL if p not in CLAIMED],
        "notes": "All checks: runtime monitoring of the real code; exit 0 = held on everything observed, exit 1 + VIOLATION line = refuted, exit 2 = check broken/observed nothing. VERIF_SEED selects the case lists. known_findings.json lists dispositioned defects.",
    }
    json.dump(m, open("/verif/MANIFEST.json", "w"), indent=1)
    print("claimed:", sorted(CLAIMED))

main()
