#!/usr/bin/env python3
"""Generates MANIFEST.json from the table below (single source of truth for what is claimed)."""
import json, subprocess

ALL = ["C%02d" % i for i in range(1, 19)]

# id -> (technique, level text, level note, design_ref)
CLAIMED = {
 "C07": ("differential runtime monitor: real backends vs. sequential map-with-expiry reference model over seeded random op sequences",
         "Exploration: every result of seeded random operation sequences on the three real backends is compared online with a reference map-with-expiry; evidence lists op counts and the (op,state) pairs covered. Held on what was observed, not for all sequences.",
         "Wall clock not stepped; TTL margins >=0.5s separate fresh/expired; the reference model (c07_seqmodel.go) is the trusted oracle.",
         "2/C07"),
}

NOT_YET = "check not built yet in this round (planned, see DESIGN.md section 2)"

def main():
    hooks_commits = []
    try:
        out = subprocess.run(["git", "-C", "/repo", "log", "--format=%h %s"], capture_output=True, text=True).stdout
        hooks_commits = [l.split()[0] for l in out.splitlines() if l.split(" ", 1)[1].startswith("verif:")]
    except Exception:
        pass
    checks = []
    for pid in ALL:
        if pid not in CLAIMED:
            continue
        tech, text, note, ref = CLAIMED[pid]
        checks.append({
            "property_id": pid,
            "quick_cmd": "./check %s quick" % pid,
            "thorough_cmd": "./check %s thorough" % pid,
            "evidence_file": "evidence/%s.json" % pid,
            "replay_cmd_template": "./check %s --replay {path}" % pid,
            "engine": "vh",
            "level_claimed": {"category": "exploration", "text": text, "design_ref": "DESIGN.md section " + ref},
            "level_note": note,
            "technique": tech,
        })
    m = {
        "version": 1,
        "setup_cmd": "./setup.sh",
        "hooks": {
            "guard": "verif",
            "enable": "go build -tags verif (the harness module replaces github.com/bool64/cache with /repo)",
            "baseline_off_cmd": "cd /repo && GOFLAGS=-mod=mod GOPROXY=off GOSUMDB=off GOTOOLCHAIN=local go test -vet=off -count=1 -timeout 25m ./...",
            "source_commits": hooks_commits,
            "add_only": True,
        },
        "engines": [{
            "name": "vh",
            "path": "harness/",
            "serves_properties": sorted(CLAIMED),
            "kind_free_text": "Go harness (runtime monitors, reference models, history checkers, race-detector driver); one child process per batch",
        }],
        "checks": checks,
        "not_applicable": [{"property_id": p, "reason": NOT_YET} for p in ALL if p not in CLAIMED],
        "notes": "All checks: runtime monitoring of the real code; exit 0 = held on everything observed, exit 1 + VIOLATION line = refuted, exit 2 = check broken/observed nothing. VERIF_SEED selects the case lists. known_findings.json lists dispositioned defects.",
    }
    json.dump(m, open("/verif/MANIFEST.json", "w"), indent=1)
    print("claimed:", sorted(CLAIMED))

main()
