#!/bin/bash
# ./selftest_all.sh [glob]  — runs ./selftest for every mutants/<glob> patch against the property named in the file
# (m-<ID>-name.patch) or, for revert-* patches, against the properties listed in mutants/revert-map.txt.
cd "$(dirname "$0")"
PAT=${1:-m-*.patch}
J=${SELFTEST_JOBS:-3}
run_one() {
  f=$1
  base=$(basename "$f")
  case "$base" in
    m-*) ids=$(echo "$base" | sed 's/^m-\(C[0-9]*\)-.*/\1/');;
    *) ids=$(grep -F "$(echo "$base" | cut -d- -f2)" mutants/revert-map.txt | cut -d' ' -f3-);;
  esac
  for id in $ids; do
    SELFTEST_SUITE=${SELFTEST_SUITE_DEFAULT:-0} ./selftest "$f" "$id" 2>&1 | grep -E "^(CAUGHT|MISSED|suite:|PATCH-FAILED|MUTANT)" | tr '\n' ' '
    echo
  done
}
export -f run_one
ls mutants/$PAT | xargs -P "$J" -I{} bash -c 'run_one {}'
