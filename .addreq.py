#!/usr/bin/env python3
# usage: .addreq.py <file> <ID or ''> <counter> : appends a counter to the Required list (of engine ID if given)
import sys,re
p,eid,c=sys.argv[1],sys.argv[2],sys.argv[3]
s=open(p).read()
lines=s.split('\n')
cur=None
done=False
for i,l in enumerate(lines):
    m=re.search(r'ID:\s+"(C\d\d)"',l)
    if m: cur=m.group(1)
    if 'Required:' in l and (not eid or cur==eid) and not done:
        j=l.index('}',l.index('Required:'))
        lines[i]=l[:j]+', "%s"'%c+l[j:]
        done=True
assert done
open(p,'w').write('\n'.join(lines))
