package main

import (
	"fmt"
	"math/rand"
	"time"
)

// C05: build economy - SyncRead single-flight and cached failures suppress rebuilds.

func init() {
	register(&Engine{
		ID:       "C05",
		Batches:  func(string) int { return 16 },
		ChildEnv: foChildEnv,
		Run:      runC05,
		Rule: "three families: (a) SyncRead=on concurrent cases (steered 7/8, free 1/8; 2..6 / up to 12 workers, bursts on missing/expired keys, no SkipRead): after a successful stored build no further builder invocation for the key, " +
			"and within 0.9*FailedUpdateTTL of a failed build no builder invocation for the key, errors served are the cached one; (b) sequential scripts of 6 Gets with the failing invocation at every position x FailedUpdateTTL {default,1h,-1} " +
			"x entry state, judged against a small executable model (exact build count and result of every Get); (c) failure-cache entry expiry bracket [tb+0.95T, ta+1.05T] and rebuild after Errors.ExpireAll; " +
			"distinct_nontrivial = distinct (config, schedule signature) of family-(a) runs with >=2 overlapping Gets on one key plus distinct family-(b) cells",
		Required:    []string{"a.runs", "a.success_then_quiet.checked", "a.bursts.one_build", "a.suppression.checked", "b.sequences", "b.reexpire_sequences", "b.past_update_ttl_sequences", "b.default_backend_sequences", "b.gets_with_done_context", "b.sequences_with_notfound_builder_error", "b.gets", "c.expiry.checked", "c.rebuild_after_elapse.checked", "api.Failover", "api.FailoverOf", "b.sequences_with_notfound_builder_error"},
		Assumptions: []string{"suppression window is judged only for events whose monotonic timestamps lie within 0.9*FailedUpdateTTL of the failure (sound under load)", "without SyncRead redundant sequential builds are documented behaviour and only counted"},
		Timeout:     func(string) time.Duration { return 45 * time.Minute },
	})
}

func runC05(b *Batch) {
	n := b.Pick(3200, 640000) / b.NBatches
	for i := 0; i < n; i++ {
		if b.Skip(i) {
			continue
		}
		rng := rand.New(rand.NewSource(b.CaseSeed(i)))
		if i%4 == 3 {
			if i%64 == 31 {
				c05DefaultBackend(b, i)
			} else if i%16 == 15 {
				c05PastUpdateTTL(b, i, rng)
			} else if i%8 == 7 {
				c05Reexpire(b, i, rng)
			} else {
				c05Sequential(b, i, rng)
			}
			continue
		}
		c05Concurrent(b, i, rng)
		collectGarbage(i)
	}
}

func futOf(cfg foConfig) time.Duration {
	switch cfg.FailedUpdateTTL {
	case 0:
		return 20 * time.Second
	case -1:
		return -1
	}
	return cfg.FailedUpdateTTL
}

func c05Concurrent(b *Batch, idx int, rng *rand.Rand) {
	steered := foSteeredShare(idx / 4)
	o := foGenOpts{steered: steered, maxWorkers: 6, forceSR: rng.Intn(5) < 3, noSkip: true}
	if !steered {
		o.maxWorkers = 12
	}
	c := genFoCase(rng, o)
	c.Collide = false
	burst := rng.Intn(2) == 0
	if burst { // burst on one missing / expired key
		c.NKeys = 1
		c.States = []string{[]string{"absent", "stale", "toostale"}[rng.Intn(3)]}
		if c.States[0] == "toostale" && c.Cfg.MaxStaleness == 0 {
			c.States[0] = "absent"
		}
		c.Primed = []bool{false}
		for w := range c.Scripts {
			for g := range c.Scripts[w] {
				c.Scripts[w][g].Key = 0
			}
		}
		c.FailPct = []int{0, 0, 100, 50}[rng.Intn(4)]
	} else {
		for w := range c.Scripts {
			for g := range c.Scripts[w] {
				if c.Scripts[w][g].Key >= c.NKeys {
					c.Scripts[w][g].Key = 0
				}
			}
		}
	}
	x := c.run()
	defer x.run.release()
	b.R.Eval()
	b.R.Count("a.runs", 1)
	b.R.Count("api."+c.Cfg.API, 1)
	if x.outcome == "inconclusive" {
		b.R.Inconcl("C05 executor watchdog")
		return
	}
	if x.outcome == "deadlock" {
		b.R.Count("runs.deadlocked_reported_by_C04", 1)
		return
	}
	fail := func(what, msg string) {
		b.R.Violate(b, idx, "C05:"+c.Cfg.API+":"+what, msg+" ["+c.CfgS+"]", x.witness(c))
	}
	fut := futOf(c.Cfg)
	// per key scan
	type kst struct {
		successSeq  int64 // seq of the stored successful build (0: none)
		failT       int64 // monotonic time of the last failed build / primed failure (-1: none)
		failN       int64
		buildsOK    int
		builds      int
		gets        int
	}
	ks := map[int]*kst{}
	get := func(k int) *kst {
		if ks[k] == nil {
			ks[k] = &kst{failT: -1}
		}
		return ks[k]
	}
	stored := map[string]bool{}
	for _, e := range x.log {
		if e.Kind == "be.write" && !e.Inject {
			stored[e.Val] = true
		}
	}
	getStart := map[int]foEvent{}
	for _, e := range x.log {
		if e.Key < 0 {
			continue
		}
		s := get(e.Key)
		switch e.Kind {
		case "prime.failure":
			s.failT, s.failN = e.T, e.ErrN
		case "get.call":
			s.gets++
			getStart[e.Get] = e
		case "build.enter":
			s.builds++
			if c.Cfg.SyncRead && s.successSeq != 0 {
				fail("rebuild-after-success", fmt.Sprintf("key %d: builder invoked again (n=%d, get %d) although a successful build had been stored and is still fresh (SyncRead on)", e.Key, e.N, e.Get))
			}
			if fut > 0 && s.failT >= 0 && float64(e.T-s.failT) < 0.9*float64(fut) {
				fail("rebuild-after-failure", fmt.Sprintf("key %d: builder invoked (n=%d) %v after a failed build although FailedUpdateTTL=%v", e.Key, e.N, time.Duration(e.T-s.failT), fut))
			}
		case "build.exit":
			if e.Val != "" {
				s.buildsOK++
				if stored[e.Val] {
					s.successSeq = e.Seq
				}
			} else if fut > 0 {
				s.failT, s.failN = e.T, e.ErrN
			}
		case "get.ret":
			if c.Cfg.SyncRead && s.successSeq != 0 {
				b.R.Count("a.success_then_quiet.checked", 1)
			}
			st := getStart[e.Get]
			if fut > 0 && s.failT >= 0 && st.T > s.failT && float64(e.T-s.failT) < 0.9*float64(fut) {
				b.R.Count("a.suppression.checked", 1)
				if e.ErrKind == "build" && e.ErrN != s.failN {
					fail("wrong-cached-error", fmt.Sprintf("key %d: Get %d returned builder error n=%d, cached failure is n=%d", e.Key, e.Get, e.ErrN, s.failN))
				}
			}
		}
	}
	cont, _ := contended(x.log)
	if cont {
		b.R.Nontrivial(c.CfgS + "/" + x.signature())
	}
	// a burst of N Gets on one missing/expired key with SyncRead costs exactly one successful build
	if burst && c.Cfg.SyncRead && c.FailPct == 0 {
		s := get(0)
		if s.gets >= 2 {
			b.R.Count("a.bursts.one_build", 1)
			if s.buildsOK != 1 || s.builds != 1 {
				fail("burst-cost", fmt.Sprintf("burst of %d Gets on one %s key cost %d builds (%d successful), want exactly 1", s.gets, c.States[0], s.builds, s.buildsOK))
			}
		}
	}
	if !c.Cfg.SyncRead {
		for _, s := range ks {
			if s.buildsOK > 1 {
				b.R.Count("a.redundant_builds_without_syncread(counted_only)", int64(s.buildsOK-1))
			}
		}
	}
	// (c) failure-cache expiry bracket and rebuild after simulated elapse
	if fut > 0 && x.run.fo.HasErrors() {
		lastFail := map[int]foEvent{}
		lastRet := map[int]foEvent{}
		for _, e := range x.log {
			if e.Kind == "build.exit" && e.Val == "" {
				lastFail[e.Key] = e
			}
		}
		for _, e := range x.log {
			// the cache_build metric is emitted after the failure was cached: its wall time bounds the write from above
			if e.Kind == "stat" && e.Info == "cache_build" {
				for k, f := range lastFail {
					if e.Get == f.Get && e.Seq > f.Seq {
						if _, done := lastRet[k]; !done {
							lastRet[k] = e
						}
					}
				}
			}
		}
		x.run.fo.ErrorsWalk(func(k []byte, er error, exp time.Time) {
			ki := x.run.keyIndex(k)
			f, ok := lastFail[ki]
			if !ok {
				return
			}
			lo := float64(f.W) + 0.95*float64(fut) - 1000
			hi := float64(time.Now().UnixNano()) + 1.05*float64(fut) + 1000
			if r, ok := lastRet[ki]; ok {
				hi = float64(r.W) + 1.05*float64(fut) + 1000
			}
			E := float64(exp.UnixNano())
			b.R.Count("c.expiry.checked", 1)
			if E < lo || E > hi {
				fail("failure-ttl", fmt.Sprintf("key %d: failure cached until %v, want within [fail+0.95*%v, return+1.05*%v]", ki, exp, fut, fut))
			}
			var be *buildErr
			if !asBuildErr(er, &be) || be.N != f.ErrN {
				fail("failure-cache-content", fmt.Sprintf("key %d: failure cache holds %v, last failure was n=%d", ki, er, f.ErrN))
			}
		})
		// simulated elapse: after ExpireAll of the failure cache the builder is invoked again (when no fresh value exists)
		var keys []int
		for k := range lastFail {
			if v, err := x.run.be.Read(bg, x.run.keys[k]); err != nil || v == nil {
				keys = append(keys, k)
			}
		}
		if len(keys) > 0 {
			x.run.fo.ErrorsExpireAll()
			advanceClock()
			for _, fr := range x.run.followUp(keys, false) {
				b.R.Count("c.rebuild_after_elapse.checked", 1)
				if fr.Blocked || !fr.Built {
					fail("no-rebuild-after-elapse", fmt.Sprintf("key %d: after the cached failure expired the next Get did not invoke the builder (blocked=%v val=%q err=%q)", fr.Key, fr.Blocked, fr.Val, fr.Err))
				}
			}
		}
	}
	if idx == 0 && b.Index == 0 {
		b.R.Sample(x.witness(c))
	}
}

func asBuildErr(err error, target **buildErr) bool {
	k, key, n := classifyErr(err)
	if k != "build" {
		return false
	}
	*target = &buildErr{Key: key, N: n}
	return true
}

// c05Sequential: one caller, 6 Gets, failing invocation at a chosen position, judged against an executable model.
func c05Sequential(b *Batch, idx int, rng *rand.Rand) {
	p := foPairings[rng.Intn(3)]
	cfg := foConfig{API: p[0], BackendKind: p[1], SyncUpdate: rng.Intn(2) == 0, SyncRead: rng.Intn(2) == 0, FailHard: rng.Intn(2) == 0}
	cfg.FailedUpdateTTL = []time.Duration{0, time.Hour, -1}[rng.Intn(3)]
	state := []string{"absent", "absent", "toostale"}[rng.Intn(3)]
	if state == "toostale" {
		cfg.MaxStaleness = time.Hour
	}
	failFrom := rng.Intn(6)       // invocation indices [failFrom, failFrom+failLen) fail
	failLen := 1 + rng.Intn(3)
	skipAt := -1
	if rng.Intn(3) == 0 {
		skipAt = rng.Intn(6)
	}
	sc := newSched(false, "random", rng)
	sc.delayProb = 0
	r := newFoRun(cfg, [][]byte{[]byte("seq-key")}, sc)
	defer r.release()
	prepop := ""
	if state != "absent" {
		prepop = r.prepopulate(rng, 0, state)
	}
	errKind := rng.Intn(3) // what the failing builder returns: a plain error, one wrapping context.Canceled, one wrapping cache.ErrNotFound
	r.script = func(_ int, inv int) buildOutcome {
		return buildOutcome{OK: inv < failFrom || inv >= failFrom+failLen, CtxErr: errKind == 1, NotFound: errKind == 2}
	}
	if errKind == 2 {
		b.R.Count("b.sequences_with_notfound_builder_error", 1)
	}
	fut := futOf(cfg)
	// model
	type mres struct {
		build bool
		res   string // value:<tok-kind>, err
	}
	haveFresh := false
	failCached := false
	inv := 0
	var want []mres
	for g := 0; g < 6; g++ {
		skip := g == skipAt
		switch {
		case haveFresh && !skip:
			want = append(want, mres{false, "fresh"})
		case failCached && !skip: // SkipRead also bypasses the failure cache (documented: readers return ErrNotFound under SkipRead)
			want = append(want, mres{false, "cachederr"})
		default:
			ok := inv < failFrom || inv >= failFrom+failLen
			inv++
			if ok {
				haveFresh = true
				want = append(want, mres{true, "new"})
			} else {
				if fut > 0 {
					failCached = true
				}
				switch {
				case haveFresh && skip:
					// SkipRead hides the fresh value; a failing rebuild has no stale fallback to offer
					want = append(want, mres{true, "builderr"})
				case state == "toostale" && !haveFresh && !cfg.FailHard && !skip:
					want = append(want, mres{true, "prepop"})
				default:
					want = append(want, mres{true, "builderr"})
				}
			}
		}
	}
	// the caller's context may be done already (cancelled request still being served) or carry a deadline: the model
	// does not depend on it - a failure is a failure and is remembered
	ctxMode := rng.Intn(3)
	for g := 0; g < 6; g++ {
		sp := getSpec{Key: 0, SkipRead: g == skipAt}
		if ctxMode == 1 && rng.Intn(2) == 0 {
			sp.PreCancel = true
			b.R.Count("b.gets_with_done_context", 1)
		} else if ctxMode == 2 {
			sp.Deadline = true
		}
		r.doGet(0, sp)
	}
	b.R.Eval()
	b.R.Count("b.sequences", 1)
	b.R.Count("api."+cfg.API, 1)
	cell := fmt.Sprintf("seq/%s/%s/failFrom=%d/len=%d/skip=%d", cfg, state, failFrom, failLen, skipAt)
	b.R.Nontrivial(cell)
	log := r.snapshotLog()
	gi := -1
	builtIn := map[int]bool{}
	for _, e := range log {
		if e.Kind == "build.enter" {
			builtIn[e.Get] = true
		}
	}
	var lastNew string
	for _, e := range log {
		if e.Kind == "build.exit" && e.Val != "" {
			_ = e
		}
		if e.Kind != "get.ret" {
			continue
		}
		gi++
		b.R.Count("b.gets", 1)
		w := want[gi]
		got := ""
		switch {
		case e.ErrKind == "build":
			got = "err"
		case e.ErrKind != "":
			got = "other:" + e.Err
		case e.Val == prepop && prepop != "":
			got = "prepop"
		case e.Zero:
			got = "zero"
		default:
			got = "value"
		}
		expect := map[string]string{"fresh": "value", "new": "value", "cachederr": "err", "builderr": "err", "prepop": "prepop"}[w.res]
		if builtIn[e.Get] != w.build || got != expect {
			b.R.Violate(b, idx, "C05:"+cfg.API+":sequential:"+w.res, fmt.Sprintf("%s: Get #%d: built=%v result=%s (%q,%q); model: built=%v result=%s", cell, gi, builtIn[e.Get], got, e.Val, e.Err, w.build, w.res),
				map[string]interface{}{"cell": cell, "events": log})
			break
		}
		if w.res == "fresh" && e.Val != lastNew {
			b.R.Violate(b, idx, "C05:"+cfg.API+":sequential:fresh-value", fmt.Sprintf("%s: Get #%d returned %q, last built value is %q", cell, gi, e.Val, lastNew), map[string]interface{}{"cell": cell, "events": log})
		}
		if w.res == "new" {
			lastNew = e.Val
		}
	}
}

// c05Reexpire: a stale value exists, its rebuild fails (failure cached), then the refreshed stale copy expires again (ExpireAll
// stands for UpdateTTL elapsing) - several times. Within FailedUpdateTTL the builder must not be invoked again.
func c05Reexpire(b *Batch, idx int, rng *rand.Rand) {
	p := foPairings[rng.Intn(3)]
	cfg := foConfig{API: p[0], BackendKind: p[1], SyncUpdate: rng.Intn(2) == 0, SyncRead: rng.Intn(2) == 0, FailHard: rng.Intn(2) == 0}
	cfg.FailedUpdateTTL = []time.Duration{0, time.Hour, -1}[rng.Intn(3)]
	if rng.Intn(2) == 0 {
		cfg.MaxStaleness = time.Hour
	}
	sc := newSched(false, "random", rng)
	sc.delayProb = 0
	r := newFoRun(cfg, [][]byte{[]byte("re-key")}, sc)
	defer r.release()
	prepop := r.prepopulate(rng, 0, "stale")
	r.script = func(int, int) buildOutcome { return buildOutcome{OK: false} }
	nGets := 3 + rng.Intn(3)
	quiesce := func() {
		for dl := time.Now().Add(3 * time.Second); len(r.fo.LockedKeys()) > 0 && time.Now().Before(dl); {
			time.Sleep(50 * time.Microsecond)
		}
	}
	for g := 0; g < nGets; g++ {
		r.doGet(0, getSpec{Key: 0})
		quiesce()
		r.be.ExpireAll(bg) // the refreshed copy expires again
		advanceClock()
	}
	b.R.Eval()
	b.R.Count("b.reexpire_sequences", 1)
	b.R.Count("api."+cfg.API, 1)
	cell := fmt.Sprintf("reexpire/%s/gets=%d", cfg, nGets)
	b.R.Nontrivial(cell)
	builds := 0
	for _, e := range r.snapshotLog() {
		if e.Kind == "build.enter" {
			builds++
		}
		if e.Kind == "get.ret" && e.ErrKind == "" && e.Val != prepop {
			b.R.Violate(b, idx, "C05:"+cfg.API+":reexpire:value", fmt.Sprintf("%s: Get returned %q, only the stale value %q or an error is possible", cell, e.Val, prepop), map[string]interface{}{"events": r.snapshotLog()})
		}
	}
	want := 1
	if futOf(cfg) < 0 {
		want = nGets
	}
	if builds != want {
		b.R.Violate(b, idx, "C05:"+cfg.API+":reexpire:builds", fmt.Sprintf("%s: builder invoked %d times, want %d (one failure, then served from the failure cache while the stale copy keeps expiring)", cell, builds, want), map[string]interface{}{"cell": cell, "events": r.snapshotLog()})
	}
}

// c05PastUpdateTTL: a stale value is rebuilt successfully (possibly to an equal value: the data source did not change) with
// a tiny UpdateTTL. Once UpdateTTL has elapsed the short-lived refreshed copy is history: the build result stays fresh for
// the regular TTL and the builder must not be invoked again.
func c05PastUpdateTTL(b *Batch, idx int, rng *rand.Rand) {
	p := foPairings[rng.Intn(3)]
	cfg := foConfig{API: p[0], BackendKind: p[1], SyncUpdate: rng.Intn(2) == 0, SyncRead: rng.Intn(2) == 0, FailHard: rng.Intn(2) == 0, MaxStaleness: time.Hour}
	cfg.UpdateTTL = time.Millisecond
	cfg.Observe = rng.Intn(3) != 0
	cfg.SliceVals = cfg.Observe && cfg.API == "Failover" && rng.Intn(2) == 0
	same := rng.Intn(2) == 0
	sc := newSched(false, "random", rng)
	sc.delayProb = 0
	r := newFoRun(cfg, [][]byte{[]byte("ut-key")}, sc)
	defer r.release()
	prepop := r.prepopulate(rng, 0, "stale")
	r.script = func(int, int) buildOutcome { return buildOutcome{OK: true, Same: same} }
	first := getSpec{Key: 0}
	if rng.Intn(2) == 0 {
		hour := time.Hour // the caller asks for an hour: the temporary refresh with UpdateTTL must not shorten that
		first.CallerTTL = &hour
	}
	r.doGet(0, first)
	for dl := time.Now().Add(3 * time.Second); len(r.fo.LockedKeys()) > 0 && time.Now().Before(dl); {
		time.Sleep(50 * time.Microsecond)
	}
	time.Sleep(3 * time.Millisecond) // a lower bound is all that is needed: UpdateTTL (1ms) is over
	nGets := 2 + rng.Intn(3)
	for g := 0; g < nGets; g++ {
		r.doGet(0, getSpec{Key: 0})
	}
	b.R.Eval()
	b.R.Count("b.past_update_ttl_sequences", 1)
	b.R.Count("api."+cfg.API, 1)
	cell := fmt.Sprintf("past-updatettl/%s/observe=%v/same=%v", cfg, cfg.Observe, same)
	b.R.Nontrivial(cell)
	builds, built := 0, ""
	for _, e := range r.snapshotLog() {
		switch e.Kind {
		case "build.enter":
			builds++
		case "build.exit":
			if built == "" {
				built = e.Val
			}
		case "get.ret":
			if e.Get > 1 && (e.ErrKind != "" || e.Val != built) {
				b.R.Violate(b, idx, "C05:"+cfg.API+":past-updatettl:value", fmt.Sprintf("%s: Get #%d returned (%q,%q), want the built value %q (stale was %q)", cell, e.Get, e.Val, e.Err, built, prepop), map[string]interface{}{"cell": cell, "events": r.snapshotLog()})
			}
		}
	}
	if builds != 1 {
		b.R.Violate(b, idx, "C05:"+cfg.API+":past-updatettl:builds", fmt.Sprintf("%s: builder invoked %d times for 1+%d Gets, want 1: the successful build's result is fresh for the regular TTL, UpdateTTL only covers the time of the build", cell, builds, nGets), map[string]interface{}{"cell": cell, "events": r.snapshotLog()})
	}
}
