package main

import (
	"bytes"
	"context"
	"errors"
	"fmt"
	"math/rand"
	"strings"
	"sync/atomic"
	"time"

	"github.com/bool64/cache"
)

// C09: keys are isolated - hash collisions and key-buffer reuse never leak.

func init() {
	register(&Engine{
		ID:       "C09",
		Batches:  func(string) int { return 16 },
		ChildEnv: foChildEnv,
		Run:      runC09,
		Rule: "families of 2..4 constructed xxhash64-colliding 64-byte keys (equality of Sum64 asserted) plus plain keys; seeded sequences of Write/Read/Delete/Load/Store, Failover/FailoverOf.Get, AddLabels+InvalidateByLabels and Dump/Restore over them on all backends, " +
			"judged by the collision-slot model (a key returns its own last value, or at most a miss if a partner was written since; never a partner's value, stale item or deletion); after every call that takes a key the passed buffer is overwritten " +
			"(with a partner key / noise) and stored keys, label associations and the key of gated background builds are re-checked with fresh buffers; distinct_nontrivial = distinct (backend, family size, op-kind trace) sequences in which a partner write preceded a read/delete of the other key",
		Required:    []string{"sequences", "collision.partner_written_then_read", "collision.partner_written_then_deleted", "collision.miss_observed", "buffer.overwritten_after_call", "bg.gated_builds", "bg.failing_builds", "bg.partner_gets_during_build", "collision.concurrent_rounds", "labels.invalidations", "failover.gets", "dumprestore.checked", "kind.ShardedMap", "kind.SyncMap", "kind.ShardedMapOf", "writes.value_equal_to_another_keys_value", "dumprestore.over_existing_content"},
		Assumptions: []string{"collision keys are constructed for xxhash64 with seed 0 (cespare/xxhash v2) and verified at run time"},
		Timeout:     func(string) time.Duration { return 45 * time.Minute },
	})
}

func runC09(b *Batch) {
	n := b.Pick(8000, 3200000) / b.NBatches
	for i := 0; i < n; i++ {
		if b.Skip(i) {
			continue
		}
		if i%5 == 4 {
			c09Background(b, i)
			if i%50 == 4 {
				c09ConcurrentCollision(b, i)
			}
		} else {
			i := i
			b.Guard(i, "C09", func() { c09Sequence(b, i) })
			collectGarbage(i)
		}
	}
}

type c09Key struct {
	bytes  []byte
	family int // -1: plain
}

func c09Sequence(b *Batch, idx int) {
	rng := rand.New(rand.NewSource(b.CaseSeed(idx)))
	kind := backendKinds[rng.Intn(3)]
	fam := collidingKeys(rng, 2+rng.Intn(3))
	var keys []c09Key
	for _, k := range fam {
		keys = append(keys, c09Key{k, 0})
	}
	for i := 0; i < 2; i++ {
		k := make([]byte, 64)
		rng.Read(k)
		keys = append(keys, c09Key{k, -1})
	}
	be := newBackend(kind, cache.Config{EvictionStrategy: c16Strategies[rng.Intn(3)]})
	collides := kind != "SyncMap"
	b.R.Eval()
	b.R.Count("sequences", 1)
	b.R.Count("kind."+kind, 1)

	// Failover frontend over the same backend
	var get func(ctx context.Context, key []byte, build func() (string, error)) (string, error)
	switch a := be.(type) {
	case smAdapter:
		f := cache.NewFailover(cache.FailoverConfig{Backend: a.m, SyncUpdate: true}.Use)
		get = func(ctx context.Context, key []byte, build func() (string, error)) (string, error) {
			v, err := f.Get(ctx, key, func(context.Context) (interface{}, error) { s, e := build(); return s, e })
			s, _ := v.(string)
			return s, err
		}
	case syAdapter:
		f := cache.NewFailover(cache.FailoverConfig{Backend: a.m, SyncUpdate: true}.Use)
		get = func(ctx context.Context, key []byte, build func() (string, error)) (string, error) {
			v, err := f.Get(ctx, key, func(context.Context) (interface{}, error) { s, e := build(); return s, e })
			s, _ := v.(string)
			return s, err
		}
	case ofAdapter:
		f := cache.NewFailoverOf[string](cache.FailoverConfigOf[string]{Backend: a.m, SyncUpdate: true}.Use)
		get = func(ctx context.Context, key []byte, build func() (string, error)) (string, error) {
			return f.Get(ctx, key, func(context.Context) (string, error) { return build() })
		}
	}

	type st struct {
		present      bool
		tok          string
		expired      bool
		maybeEvicted bool
		labels       map[string]bool
	}
	model := make([]st, len(keys))
	var steps []string
	trace := uint64(1469598103934665603)
	interesting := false
	tokN := 0
	fail := func(what, msg string) {
		b.R.Violate(b, idx, "C09:"+kind+":"+what, fmt.Sprintf("%s: %s", what, msg), map[string]interface{}{"backend": kind, "family": len(fam), "steps": steps})
	}
	// pass returns the buffer handed to the library and a function that overwrites it afterwards
	pass := func(ki int) ([]byte, func()) {
		buf := clone(keys[ki].bytes)
		return buf, func() {
			b.R.Count("buffer.overwritten_after_call", 1)
			if rng.Intn(2) == 0 {
				copy(buf, keys[(ki+1)%len(keys)].bytes) // another live key of equal length
			} else {
				rng.Read(buf)
			}
		}
	}
	written := func(ki int, tok string, expired bool) {
		model[ki] = st{present: true, tok: tok, expired: expired, labels: model[ki].labels}
		if collides && keys[ki].family >= 0 {
			for j := range keys {
				if j != ki && keys[j].family == keys[ki].family && model[j].present {
					model[j].maybeEvicted = true
				}
			}
		}
	}
	checkRead := func(ki int, v interface{}, err error, op string) {
		m := &model[ki]
		cls := errClass(err)
		if m.present && m.maybeEvicted {
			b.R.Count("collision.partner_written_then_read", 1)
			interesting = true
		}
		switch {
		case cls == "notfound":
			if m.present && !m.maybeEvicted {
				fail(op+"-lost", fmt.Sprintf("key #%d: %s returned ErrNotFound although %s is stored and no colliding key was written since", ki, op, m.tok))
			}
			if m.present && m.maybeEvicted {
				b.R.Count("collision.miss_observed", 1)
			}
			m.present, m.maybeEvicted = false, false
		case cls == "ok":
			if !m.present || m.expired || v != m.tok {
				fail(op+"-foreign", fmt.Sprintf("key #%d: %s returned %v, model holds %+v", ki, op, v, *m))
			}
			m.maybeEvicted = false
		case cls == "expired":
			sv, _, _ := be.Expired(err)
			if !m.present || !m.expired || sv != m.tok {
				fail(op+"-foreign-stale", fmt.Sprintf("key #%d: %s returned stale %v, model holds %+v", ki, op, sv, *m))
			}
			m.maybeEvicted = false
		default:
			fail(op+"-error", fmt.Sprintf("key #%d: %v", ki, err))
		}
	}
	nOps := 10 + rng.Intn(70)
	for s := 0; s < nOps; s++ {
		ki := rng.Intn(len(keys))
		if rng.Intn(3) != 0 {
			ki = rng.Intn(len(fam)) // concentrate on the colliding family
		}
		op := ""
		switch p := rng.Intn(100); {
		case p < 28:
			op = "Write"
			tokN++
			tok := fmt.Sprintf("k%d/w/%d", ki, tokN)
			if rng.Intn(5) == 0 {
				// the same value as another key currently holds (equal values under different keys are ordinary data)
				for j := range keys {
					if j != ki && model[j].present && (keys[j].family == keys[ki].family || rng.Intn(4) == 0) {
						tok = model[j].tok
						b.R.Count("writes.value_equal_to_another_keys_value", 1)
						break
					}
				}
			}
			exp := rng.Intn(4) == 0
			ctx := cache.WithTTL(bg, time.Hour, false)
			if exp {
				ctx = cache.WithTTL(bg, -time.Hour, false)
			}
			buf, after := pass(ki)
			be.Write(ctx, buf, tok)
			after()
			written(ki, tok, exp)
		case p < 55:
			op = "Read"
			buf, after := pass(ki)
			v, err := be.Read(bg, buf)
			after()
			checkRead(ki, v, err, "Read")
		case p < 67:
			op = "Delete"
			m := &model[ki]
			if m.present && m.maybeEvicted {
				b.R.Count("collision.partner_written_then_deleted", 1)
				interesting = true
			}
			buf, after := pass(ki)
			err := be.Delete(bg, buf)
			after()
			switch errClass(err) {
			case "ok":
				if !m.present {
					fail("Delete-foreign", fmt.Sprintf("key #%d is absent but Delete reported success (a partner's entry deleted?)", ki))
				}
			case "notfound":
				if m.present && !m.maybeEvicted {
					fail("Delete-lost", fmt.Sprintf("key #%d: Delete returned ErrNotFound although %s is stored", ki, m.tok))
				}
			default:
				fail("Delete-error", err.Error())
			}
			m.present, m.maybeEvicted = false, false
			// partners must be unaffected: verified by the reads that follow (their model state is unchanged)
		case p < 74 && be.HasLoadStore():
			op = "Load"
			buf, after := pass(ki)
			v, ok := be.Load(buf)
			after()
			m := &model[ki]
			if ok {
				if !m.present || m.expired || v != m.tok {
					fail("Load-foreign", fmt.Sprintf("key #%d: Load returned %v, model holds %+v", ki, v, *m))
				}
			} else if m.present && !m.expired && !m.maybeEvicted {
				fail("Load-lost", fmt.Sprintf("key #%d: Load missed %s", ki, m.tok))
			}
		case p < 80 && be.HasLoadStore():
			op = "Store"
			tokN++
			tok := fmt.Sprintf("k%d/w/%d", ki, tokN)
			buf, after := pass(ki)
			be.Store(buf, tok)
			after()
			written(ki, tok, false)
		case p < 88:
			op = "Get"
			b.R.Count("failover.gets", 1)
			tokN++
			tok := fmt.Sprintf("k%d/b/%d", ki, tokN)
			built := false
			buf, after := pass(ki)
			v, err := get(bg, buf, func() (string, error) { built = true; return tok, nil })
			after()
			m := &model[ki]
			if err != nil || (tokKey(v) != ki && !(m.present && v == m.tok)) {
				fail("Get-foreign", fmt.Sprintf("key #%d: Failover.Get returned (%q,%v)", ki, v, err))
			}
			if built {
				if m.present && !m.expired && !m.maybeEvicted {
					fail("Get-rebuilt", fmt.Sprintf("key #%d: fresh value %s stored, no partner written, but Get invoked the builder", ki, m.tok))
				}
				if v != tok {
					fail("Get-foreign", fmt.Sprintf("key #%d: built %s but Get returned %q", ki, tok, v))
				}
				written(ki, tok, false)
			} else if !m.present || v != m.tok {
				fail("Get-foreign", fmt.Sprintf("key #%d: Get returned %q without building, model holds %+v", ki, v, *m))
			}
		case p < 94:
			op = "Label"
			l := fmt.Sprintf("L%d", rng.Intn(3))
			buf, after := pass(ki)
			be.Index().AddInvalidationLabels(buf, l)
			after()
			if model[ki].labels == nil {
				model[ki].labels = map[string]bool{}
			}
			model[ki].labels[l] = true
		default:
			op = "Invalidate"
			b.R.Count("labels.invalidations", 1)
			l := fmt.Sprintf("L%d", rng.Intn(3))
			_, err := be.Index().InvalidateByLabels(bg, l)
			if err != nil {
				fail("Invalidate-error", err.Error())
			}
			for j := range model {
				if model[j].labels[l] {
					delete(model[j].labels, l)
					model[j].present, model[j].maybeEvicted = false, false
				}
			}
			// every other key must be untouched: checked by subsequent reads; check all now
			for j := range keys {
				v, err := be.Read(bg, clone(keys[j].bytes))
				checkRead(j, v, err, "ReadAfterInvalidate")
			}
		}
		if op == "" {
			continue
		}
		steps = append(steps, fmt.Sprintf("%s #%d", op, ki))
		trace = (trace ^ hashStr(op)) * 1099511628211
		// stored keys are never corrupted by buffer reuse
		if s%7 == 0 {
			be.Walk(func(k []byte, v interface{}, _ timeT) error {
				found := -1
				for j := range keys {
					if bytes.Equal(keys[j].bytes, k) {
						found = j
					}
				}
				if found < 0 {
					fail("stored-key-corrupted", fmt.Sprintf("Walk reports key %s which was never written (caller buffer aliased?)", keyLabel(k)))
				} else if s, ok := v.(string); ok && tokKey(s) != found && !(model[found].present && model[found].tok == s) {
					fail("stored-under-wrong-key", fmt.Sprintf("Walk reports key #%d holding %s", found, s))
				}
				return nil
			})
		}
	}
	// Restore over existing content: the receiver already holds entries under the colliding partners of the dumped keys
	var buf0 bytes.Buffer
	if _, err := be.Dump(&buf0); err == nil {
		warm := newBackend(kind, cache.Config{EvictionStrategy: c16Strategies[rng.Intn(3)]})
		for j := range keys {
			if !model[j].present || rng.Intn(2) == 0 {
				_ = warm.Write(bg, keys[j].bytes, fmt.Sprintf("pre/%d", j))
				_, _ = warm.Read(bg, keys[j].bytes)
			}
		}
		dumped := map[string]string{}
		be.Walk(func(k []byte, v interface{}, _ timeT) error { dumped[string(k)] = fmt.Sprint(v); return nil })
		warm.Restore(&buf0)
		b.R.Count("dumprestore.over_existing_content", 1)
		warm.Walk(func(k []byte, v interface{}, _ timeT) error {
			want, ok := dumped[string(k)]
			got := fmt.Sprint(v)
			if ok && got != want {
				fail("restore-over-existing-mixed", fmt.Sprintf("after Restore over existing content key %s holds %s, the dump had %s for it", keyLabel(k), got, want))
			}
			if !ok && !strings.HasPrefix(got, "pre/") {
				fail("restore-over-existing-mixed", fmt.Sprintf("after Restore over existing content key %s (not in the dump) holds %s", keyLabel(k), got))
			}
			return nil
		})
		for k, want := range dumped {
			v, err := warm.Read(bg, []byte(k))
			sv, _, _ := warm.Expired(err)
			if fmt.Sprint(v) != want && fmt.Sprint(sv) != want && !(collides && errClass(err) == "notfound") {
				fail("restore-over-existing-lost", fmt.Sprintf("dumped key %s reads (%v,%v) in the warm receiver, dump had %s", keyLabel([]byte(k)), v, err, want))
			}
		}
	}
	// Dump/Restore of the final content keeps keys and values apart
	var buf bytes.Buffer
	if _, err := be.Dump(&buf); err == nil {
		dst := newBackend(kind, cache.Config{})
		dst.Restore(&buf)
		b.R.Count("dumprestore.checked", 1)
		dst.Walk(func(k []byte, v interface{}, _ timeT) error {
			for j := range keys {
				if bytes.Equal(keys[j].bytes, k) {
					if s, ok := v.(string); ok && tokKey(s) != j && !(model[j].present && model[j].tok == s) {
						fail("restore-mixed-keys", fmt.Sprintf("restored key #%d holds %s", j, s))
					}
					return nil
				}
			}
			fail("restore-unknown-key", keyLabel(k))
			return nil
		})
	}
	if interesting {
		b.R.Nontrivial(fmt.Sprintf("%s/%d/%x", kind, len(fam), trace))
	}
	if idx == 0 && b.Index == 0 {
		b.R.Sample(map[string]interface{}{"backend": kind, "family": len(fam), "steps": steps})
	}
}

// c09Background: a background build is gated while the caller rewrites its key buffer with another live key.
func c09Background(b *Batch, idx int) {
	rng := rand.New(rand.NewSource(b.CaseSeed(idx)))
	p := foPairings[rng.Intn(3)]
	cfg := foConfig{API: p[0], BackendKind: p[1], MaxStaleness: time.Hour}
	var keys [][]byte
	if rng.Intn(2) == 0 {
		keys = collidingKeys(rng, 2)
	} else {
		keys = [][]byte{[]byte("key-A"), []byte("key-B")}
	}
	sc := newSched(false, "random", rng)
	sc.delayProb = 0
	r := newFoRun(cfg, keys, sc)
	defer r.release()
	r.gateBG = make(chan struct{})
	r.bgEntered = make(chan int, 4)
	stale := r.prepopulate(rng, 0, "stale")
	other := ""
	if string(keys[0][:5]) == "key-A" || p[1] == "SyncMap" {
		other = r.prepopulate(rng, 1, "fresh") // colliding keys on sharded backends cannot coexist
	}
	mode := 1 + rng.Intn(2)
	failing := rng.Intn(3) == 0
	if failing {
		r.script = func(key, _ int) buildOutcome { return buildOutcome{OK: key != 0} }
	}
	partnerDone := false
	b.R.Eval()
	done := make(chan struct{})
	go func() {
		r.doGet(0, getSpec{Key: 0, Mutate: mode, MutateTo: 1, Cancel: rng.Intn(2) == 0})
		close(done)
	}()
	fail := func(what, msg string) {
		b.R.Violate(b, idx, "C09:"+p[0]+":"+what, what+": "+msg+" ["+cfg.String()+"]", map[string]interface{}{"events": r.snapshotLog(), "mutate": mode})
	}
	select {
	case <-r.bgEntered:
	case <-time.After(10 * time.Second):
		b.R.Inconcl("C09 background build never started")
		return
	}
	select {
	case <-done: // Get returned with the stale value and the caller has rewritten its buffer
	case <-time.After(10 * time.Second):
		b.R.Inconcl("C09 Get did not return while its background build was gated")
		return
	}
	if rng.Intn(2) == 0 {
		// while key 0's background build is parked, a forced Get of the other (possibly colliding) key builds on its own:
		// it neither waits for key 0's build nor receives its result
		pd := make(chan struct{})
		go func() { r.doGet(1, getSpec{Key: 1, SkipRead: true}); close(pd) }()
		select {
		case <-pd:
		case <-time.After(10 * time.Second):
			fail("partner-get-waits-for-foreign-build", fmt.Sprintf("Get of key 1 (%d bytes) does not return while the background build of key 0 is parked: it waits for a foreign key's build (locked keys: %d)", len(keys[1]), len(r.fo.LockedKeys())))
			close(r.gateBG)
			return
		}
		b.R.Count("bg.partner_gets_during_build", 1)
		partnerDone = true
		for _, e := range r.snapshotLog() {
			if e.Kind == "get.ret" && e.Key == 1 {
				if e.Err != "" || !strings.HasPrefix(e.Val, "k1/b/") {
					fail("partner-get-foreign-result", fmt.Sprintf("forced Get of key 1 during the build of key 0 returned (%q,%q), want its own build result", e.Val, e.Err))
				}
				if other != "" {
					other = e.Val
				}
			}
		}
	}
	b.R.Count("bg.gated_builds", 1)
	b.R.Nontrivial(fmt.Sprintf("bg/%s/%s/mutate=%d/collide=%v", p[0], p[1], mode, len(keys[0]) >= 64))
	close(r.gateBG)
	for dl := time.Now().Add(5 * time.Second); time.Now().Before(dl); {
		if len(r.fo.LockedKeys()) == 0 {
			break
		}
		time.Sleep(100 * time.Microsecond)
	}
	log := r.snapshotLog()
	var built string
	for _, e := range log {
		if e.Kind == "get.ret" && e.Key == 0 && e.Val != stale {
			fail("bg-result", fmt.Sprintf("Get returned %q, want the stale value %q", e.Val, stale))
		}
		if e.Kind == "build.exit" && e.Key == 0 {
			built = e.Val
		}
	}
	if lk := r.fo.LockedKeys(); len(lk) != 0 {
		fail("bg-lock-leaked", fmt.Sprintf("lock(s) left after the background build: %q", strings.Join(lk, ",")))
	}
	if failing {
		// the failure of the background build is remembered under the original key, and under no other
		b.R.Count("bg.failing_builds", 1)
		var under []string
		r.fo.ErrorsWalk(func(k []byte, _ error, _ time.Time) { under = append(under, string(k)) })
		if len(under) != 1 || under[0] != string(keys[0]) {
			fail("bg-failure-under-foreign-key", fmt.Sprintf("failed background build of key 0 (%q) is remembered under %q", keys[0], under))
		}
		if v, err := r.be.Read(bg, keys[0]); !(partnerDone && other == "") && !errors.Is(err, cache.ErrExpired) && (err != nil || v != stale) {
			fail("bg-failure-lost-stale", fmt.Sprintf("original key reads (%v,%v) after a failed background build, want the stale value %s", v, err, stale))
		}
		if other != "" {
			if v, err := r.be.Read(bg, keys[1]); err != nil || v != other {
				fail("bg-touched-other-key", fmt.Sprintf("the other key reads (%v,%v), want untouched %s", v, err, other))
			}
		}
		return
	}
	for _, e := range log {
		if e.Kind == "be.write" && e.Val == built && e.Key != 0 {
			fail("bg-wrote-other-key", fmt.Sprintf("background build result %s written under %s", built, describeKey(e)))
		}
	}
	if v, err := r.be.Read(bg, keys[0]); err != nil || v != built {
		fail("bg-result-not-under-original-key", fmt.Sprintf("original key reads (%v,%v), want %s", v, err, built))
	}
	if other != "" {
		if v, err := r.be.Read(bg, keys[1]); err != nil || v != other {
			fail("bg-touched-other-key", fmt.Sprintf("the other key reads (%v,%v), want untouched %s", v, err, other))
		}
	}
}

// c09ConcurrentCollision: two colliding keys, each owned by one goroutine. Deleting k1 over and over must never remove k2's
// entry: a Read of k2 right after its owner's Write has to return that value (nobody else writes or deletes k2).
func c09ConcurrentCollision(b *Batch, idx int) {
	rng := rand.New(rand.NewSource(b.CaseSeed(idx) ^ 0x1234567))
	kind := backendKinds[rng.Intn(3)]
	keys := collidingKeys(rng, 2)
	be := newBackend(kind, cache.Config{EvictionStrategy: c16Strategies[rng.Intn(3)]})
	rounds := 3000
	done := make(chan struct{})
	var clock int64
	type iv struct{ c, r int64 }
	var partnerWrites []iv
	go func() {
		defer close(done)
		for i := 0; i < rounds*4; i++ {
			be.Delete(bg, clone(keys[0]))
			if i%3 == 0 {
				// k1's owner also writes it now and then: such a write may evict k2 (a collision may cost a miss)
				c := atomic.AddInt64(&clock, 1)
				be.Write(bg, clone(keys[0]), "k0/w/x")
				partnerWrites = append(partnerWrites, iv{c, atomic.AddInt64(&clock, 1)})
			}
		}
	}()
	lost := 0
	first := ""
	type miss struct {
		c, r  int64
		round int
	}
	var misses []miss
	for i := 0; i < rounds; i++ {
		tok := fmt.Sprintf("k1/w/%d", i)
		c := atomic.AddInt64(&clock, 1)
		be.Write(bg, clone(keys[1]), tok)
		v, err := be.Read(bg, clone(keys[1]))
		r := atomic.AddInt64(&clock, 1)
		switch {
		case err == nil && v == tok:
		case errClass(err) == "notfound":
			misses = append(misses, miss{c, r, i}) // judged below: legitimate only if the partner wrote k1 in between
		default:
			lost++
			if first == "" {
				first = fmt.Sprintf("round %d: Read(k2) after Write(k2,%s) returned (%v,%v)", i, tok, v, err)
			}
		}
	}
	<-done
	for _, m := range misses {
		explained := false
		for _, w := range partnerWrites {
			if w.c < m.r && w.r > m.c { // a write of the colliding key overlaps [Write(k2), Read(k2)]
				explained = true
				break
			}
		}
		if !explained {
			lost++
			if first == "" {
				first = fmt.Sprintf("round %d: k2 vanished between its Write and Read although the other goroutine wrote nothing in between (it only called Delete(k1))", m.round)
			}
		}
	}
	// second phase: the partner only deletes (never writes): now a miss of k2 is a deletion of a different key
	done2 := make(chan struct{})
	stop := int32(0)
	go func() {
		defer close(done2)
		for atomic.LoadInt32(&stop) == 0 {
			be.Delete(bg, clone(keys[0]))
		}
	}()
	missed := 0
	for i := 0; i < rounds; i++ {
		tok := fmt.Sprintf("k1/w2/%d", i)
		be.Write(bg, clone(keys[1]), tok)
		v, err := be.Read(bg, clone(keys[1]))
		if err != nil || v != tok {
			missed++
			if first == "" {
				first = fmt.Sprintf("delete-only phase, round %d: Read(k2) after Write(k2,%s) returned (%v,%v) while the other goroutine only calls Delete(k1)", i, tok, v, err)
			}
		}
	}
	atomic.StoreInt32(&stop, 1)
	<-done2
	// third phase, barrier-synchronised rounds: k1 is present, then Delete(k1) and Write(k2) start at the same moment.
	// Whatever their order, k2 must be present afterwards (nobody wrote k1 during the round).
	var gate, fin, ack int64
	doneP := make(chan struct{})
	go func() {
		defer close(doneP)
		for i := 1; i <= rounds/3; i++ {
			for atomic.LoadInt64(&ack) < int64(i-1) { // the owner has judged the previous round
			}
			be.Write(bg, clone(keys[0]), "k0/w/y")
			atomic.AddInt64(&gate, 1) // ready
			for atomic.LoadInt64(&gate) < int64(2*i) {
			}
			be.Delete(bg, clone(keys[0]))
			atomic.AddInt64(&fin, 1)
		}
	}()
	for i := 1; i <= rounds/3; i++ {
		for atomic.LoadInt64(&gate) < int64(2*i-1) { // partner has written k1
		}
		tok := fmt.Sprintf("k1/w3/%d", i)
		atomic.AddInt64(&gate, 1) // go
		be.Write(bg, clone(keys[1]), tok)
		for atomic.LoadInt64(&fin) < int64(i) {
		}
		if v, err := be.Read(bg, clone(keys[1])); err != nil || v != tok {
			missed++
			if first == "" {
				first = fmt.Sprintf("barrier phase, round %d: Delete(k1) and Write(k2,%s) raced; afterwards Read(k2) returned (%v,%v)", i, tok, v, err)
			}
		}
		atomic.AddInt64(&ack, 1)
	}
	<-doneP
	b.R.Eval()
	b.R.Count("collision.concurrent_rounds", int64(3*rounds))
	b.R.Nontrivial(fmt.Sprintf("concurrent-collision/%s/%d", kind, idx%100))
	if lost+missed > 0 {
		b.R.Violate(b, idx, "C09:"+kind+":concurrent-delete-removed-partner", fmt.Sprintf("%d foreign results and %d lost entries of k2 while another goroutine deleted the colliding key k1: %s", lost, missed, first), map[string]interface{}{"backend": kind})
	}
}
