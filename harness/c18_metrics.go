package main

import (
	"context"
	"errors"
	"fmt"
	"math"
	"math/rand"
	"runtime"
	"sort"
	"strings"
	"sync"
	"sync/atomic"
	"time"

	"github.com/bool64/cache"
)

// C18: metrics account for every cache event exactly once.

type ledger struct {
	mu sync.Mutex
	m  map[string]float64
}

func (l *ledger) Add(_ context.Context, name string, inc float64, labels ...string) {
	lbl := ""
	for i := 0; i+1 < len(labels); i += 2 {
		if labels[i] == "name" {
			lbl = labels[i+1]
		}
	}
	l.mu.Lock()
	l.m[name+"{"+lbl+"}"] += inc
	l.mu.Unlock()
}
func (l *ledger) Set(context.Context, string, float64, ...string) {}
func (l *ledger) get(k string) float64 {
	l.mu.Lock()
	defer l.mu.Unlock()
	return l.m[k]
}

func init() {
	register(&Engine{
		ID:       "C18",
		Batches:  func(string) int { return 16 },
		ChildEnv: foChildEnv,
		Run:      runC18,
		Rule: "three families: (c) conservation: unique keys written once while Delete and DeleteAll race freely, cache_delete must equal writes minus final Len; (a) backend-only workloads on the three backends with a harness StatsTracker ledger - sequential seeded op sequences and concurrent phases (Read/Write/Delete/Load/Store from 4..16 goroutines, ExpireAll/DeleteAll at barriers) - " +
			"ground truth from the harness' own operation log; (b) Failover/FailoverOf over a named wrapped backend driven by the C01 case generator (steered and free, no fault injection), ground truth from the event log " +
			"(backend reads by result class, writes, builder invocations, failing ones, refresh writes, failure-cache writes); oracle at quiescence per name label, per metric and for the documented sums; " +
			"distinct_nontrivial = distinct (family, backend/config, metric-vector) outcomes with at least 3 non-zero metrics",
		Required:    []string{"a.sequential", "a.concurrent", "a.bulk_phases", "eviction.cases", "b.runs", "c.conservation", "d.panicking_builder_runs", "metric.cache_hit", "metric.cache_miss", "metric.cache_expired", "metric.cache_write", "metric.cache_delete", "metric.cache_build", "metric.cache_failed", "metric.cache_refreshed", "expireall.entries", "deleteall.entries", "refresh_boundary.refreshes"},
		Assumptions: []string{"evictions are off (no limits, janitor interval 1h) except in the eviction family, which only asserts cache_delete == successful Delete calls", "cache_refreshed is emitted before the refresh write: counted as attempts seen by the wrapper (workloads inject no backend faults, so attempts == re-stores)"},
		Timeout:     func(string) time.Duration { return 45 * time.Minute },
	})
}

func runC18(b *Batch) {
	n := b.Pick(2400, 800000) / b.NBatches
	for i := 0; i < n; i++ {
		if b.Skip(i) {
			continue
		}
		switch i % 6 {
		case 0:
			c18Backend(b, i)
		case 3:
			c18Conservation(b, i)
			c18PanickingBuilder(b, i)
			if i%48 == 3 {
				c18Eviction(b, i)
			}
			if i%96 == 9 {
				c18RefreshBoundary(b, i)
			}
		default:
			c18Failover(b, i)
			collectGarbage(i)
		}
	}
}

func c18Compare(b *Batch, idx int, what string, got func(string) float64, want map[string]float64, w map[string]interface{}) {
	keys := make([]string, 0, len(want))
	for k := range want {
		keys = append(keys, k)
	}
	sort.Strings(keys)
	var vec []string
	nonzero := 0
	for _, k := range keys {
		g := got(k)
		vec = append(vec, fmt.Sprintf("%s=%v", k, g))
		if g != 0 {
			nonzero++
		}
		name := k[:strings.IndexByte(k, '{')]
		b.R.Count("metric."+name, int64(g))
		if math.Abs(g-want[k]) > 1e-9 {
			w["metrics"] = vec
			b.R.Violate(b, idx, "C18:"+what+":"+name, fmt.Sprintf("%s: metric %s = %v, ground truth %v", what, k, g, want[k]), w)
		}
	}
	if nonzero >= 3 {
		b.R.Nontrivial(what + "/" + strings.Join(vec, ","))
	}
}

func c18Backend(b *Batch, idx int) {
	rng := rand.New(rand.NewSource(b.CaseSeed(idx)))
	kind := backendKinds[rng.Intn(3)]
	l := &ledger{m: map[string]float64{}}
	be := newBackend(kind, cache.Config{Name: "be", Stats: l, EvictionStrategy: c16Strategies[rng.Intn(3)]})
	keys := make([][]byte, 4+rng.Intn(8))
	for i := range keys {
		keys[i] = []byte(fmt.Sprintf("m%d", i))
	}
	var hit, miss, expired, write, del int64
	var ops []string
	b.R.Eval()
	concurrent := rng.Intn(2) == 0
	// Loads: issue them in a controlled way (known state) below instead of inside doOp
	presentAll := map[string]bool{}
	var pmu sync.Mutex
	phases := 1 + rng.Intn(4)
	for ph := 0; ph < phases; ph++ {
		if concurrent {
			workers := 4 + rng.Intn(13)
			var wg sync.WaitGroup
			for w := 0; w < workers; w++ {
				wg.Add(1)
				r := rand.New(rand.NewSource(rng.Int63()))
				// every goroutine owns its keys, so its presence model is exact while the instance is shared
				own := make([][]byte, 3)
				for i := range own {
					own[i] = []byte(fmt.Sprintf("w%d-%d", w, i))
				}
				pres := map[string]bool{}
				pmu.Lock()
				for _, k := range own {
					pres[string(k)] = presentAll[string(k)]
				}
				pmu.Unlock()
				go func() {
					defer wg.Done()
					for i := 0; i < 50; i++ {
						c18Op(be, own, pres, r, &hit, &miss, &expired, &write, &del, nil)
					}
					pmu.Lock()
					for k, v := range pres {
						presentAll[k] = v
					}
					pmu.Unlock()
				}()
			}
			wg.Wait()
		} else {
			for i := 0; i < 20+rng.Intn(60); i++ {
				c18Op(be, keys, presentAll, rng, &hit, &miss, &expired, &write, &del, &ops)
			}
		}
		if rng.Intn(6) == 0 {
			// a big cache: thousands of entries, dozens per shard
			bulk := 3000 + rng.Intn(5000)
			if rng.Intn(4) == 0 {
				bulk = 66000 + rng.Intn(30000) // many hundreds per shard
			}
			for i := 0; i < bulk; i++ {
				k := fmt.Sprintf("bulk-%d-%d", ph, i)
				be.Write(bg, []byte(k), "b")
				presentAll[k] = true
			}
			write += int64(bulk)
			b.R.Count("a.bulk_phases", 1)
		}
		// barrier: batch operations with exact "entries touched"
		switch rng.Intn(3) {
		case 0:
			n := be.Len()
			be.ExpireAll(bg)
			advanceClock()
			expired += int64(n)
			b.R.Count("expireall.entries", int64(n))
			ops = append(ops, fmt.Sprintf("ExpireAll(%d)", n))
		case 1:
			n := be.Len()
			be.DeleteAll(bg)
			del += int64(n)
			for k := range presentAll {
				presentAll[k] = false
			}
			b.R.Count("deleteall.entries", int64(n))
			ops = append(ops, fmt.Sprintf("DeleteAll(%d)", n))
		}
	}
	if concurrent {
		b.R.Count("a.concurrent", 1)
	} else {
		b.R.Count("a.sequential", 1)
	}
	want := map[string]float64{"cache_hit{be}": float64(hit), "cache_miss{be}": float64(miss), "cache_expired{be}": float64(expired), "cache_write{be}": float64(write), "cache_delete{be}": float64(del)}
	w := map[string]interface{}{"backend": kind, "concurrent": concurrent}
	if !concurrent {
		if len(ops) > 150 {
			ops = ops[:150]
		}
		w["ops"] = ops
	}
	c18Compare(b, idx, "backend/"+kind, l.get, want, w)
	if idx == 0 && b.Index == 0 {
		b.R.Sample(map[string]interface{}{"backend": kind, "ops": ops, "truth": want})
	}
}

func c18Op(be Backend, keys [][]byte, present map[string]bool, r *rand.Rand, hit, miss, expired, write, del *int64, ops *[]string) {
	k := keys[r.Intn(len(keys))]
	rec := func(s string) {
		if ops != nil {
			*ops = append(*ops, s)
		}
	}
	classify := func(err error) {
		switch errClass(err) {
		case "ok":
			atomic.AddInt64(hit, 1)
		case "notfound":
			atomic.AddInt64(miss, 1)
		case "expired":
			atomic.AddInt64(expired, 1)
		}
	}
	switch p := r.Intn(100); {
	case p < 35:
		ctx := bg
		skip := r.Intn(8) == 0
		if skip {
			ctx = cache.WithSkipRead(bg)
		}
		_, err := be.Read(ctx, k)
		if !skip {
			classify(err)
		}
		rec(fmt.Sprintf("Read(skip=%v)->%s", skip, errClass(err)))
	case p < 62:
		ctx := bg
		if r.Intn(3) == 0 {
			ctx = cache.WithTTL(bg, -time.Minute, false)
		}
		be.Write(ctx, k, "v")
		atomic.AddInt64(write, 1)
		present[string(k)] = true
		rec("Write")
	case p < 80:
		err := be.Delete(bg, k)
		if present[string(k)] { // ground truth: an entry was actually removed (keys are owned by one goroutine)
			atomic.AddInt64(del, 1)
		}
		present[string(k)] = false
		rec("Delete->" + errClass(err))
	case p < 90:
		if be.HasLoadStore() {
			be.Store(k, "s")
			atomic.AddInt64(write, 1)
			present[string(k)] = true
			rec("Store")
		}
	default:
		// Load counts as exactly one read event, whatever its class: accounted through the documented sum only
		if be.HasLoadStore() && ops != nil {
			// sequential mode: a Read right before tells the class (state cannot change in between)
			_, err := be.Read(bg, k)
			classify(err)
			be.Load(k)
			classify(err)
			rec("Read+Load->" + errClass(err))
		}
	}
}

func c18Failover(b *Batch, idx int) {
	rng := rand.New(rand.NewSource(b.CaseSeed(idx)))
	steered := foSteeredShare(idx / 3)
	o := foGenOpts{steered: steered, maxWorkers: 6, mutate: true} // callers cancel / are pre-cancelled / rewrite key buffers
	if !steered {
		o.maxWorkers = 12
	}
	c := genFoCase(rng, o)
	c.Collide = false
	c.Cfg.Observe = rng.Intn(2) == 0
	x := c.run()
	defer x.run.release()
	b.R.Eval()
	if x.outcome != "" {
		if x.outcome == "inconclusive" {
			b.R.Inconcl("C18 executor watchdog")
		}
		return
	}
	b.R.Count("b.runs", 1)
	var hit, miss, expired, write, builds, failed, primed float64
	built := map[string]bool{}
	for _, e := range x.log {
		if e.Kind == "build.exit" && e.Val != "" {
			built[e.Val] = true
		}
	}
	var finalWrites float64
	for _, e := range x.log {
		switch e.Kind {
		case "prepop":
			write++
		case "prime.failure":
			primed++
		case "be.read":
			if e.Skip {
				continue
			}
			switch e.ErrKind {
			case "":
				hit++
			case "notfound":
				miss++
			case "expired":
				expired++
			}
		case "be.write":
			write++
			if built[e.Val] {
				finalWrites++
			}
		case "build.enter":
			builds++
		case "build.exit":
			if e.Val == "" {
				failed++
			}
		}
	}
	var beWrites float64
	for _, e := range x.log {
		if e.Kind == "be.write" {
			beWrites++
		}
	}
	want := map[string]float64{
		"cache_hit{fo}": hit, "cache_miss{fo}": miss, "cache_expired{fo}": expired, "cache_write{fo}": write, "cache_delete{fo}": 0,
		"cache_build{fo}": builds, "cache_failed{fo}": failed, "cache_refreshed{fo}": beWrites - finalWrites,
	}
	if c.Cfg.FailedUpdateTTL != -1 {
		want["cache_write{err_fo}"] = failed + primed
	}
	r := x.run
	got := func(k string) float64 {
		r.mu.Lock()
		defer r.mu.Unlock()
		return r.ledger[k]
	}
	c18Compare(b, idx, "failover/"+c.Cfg.API, got, want, x.witness(c))
}

// c18Conservation: unique keys written once; Delete and DeleteAll/ExpireAll race freely. Whatever the interleaving,
// every entry is removed at most once: cache_delete == writes - final Len, cache_write == writes.
func c18Conservation(b *Batch, idx int) {
	rng := rand.New(rand.NewSource(b.CaseSeed(idx)))
	kind := backendKinds[rng.Intn(3)]
	l := &ledger{m: map[string]float64{}}
	be := newBackend(kind, cache.Config{Name: "be", Stats: l, EvictionStrategy: c16Strategies[rng.Intn(3)]})
	workers := 4 + rng.Intn(9)
	per := 30 + rng.Intn(60)
	var writes, reads int64
	var wg sync.WaitGroup
	stop := make(chan struct{})
	var batchWG sync.WaitGroup
	nBatch := 1 + rng.Intn(2)
	for g := 0; g < nBatch; g++ {
		batchWG.Add(1)
		r := rand.New(rand.NewSource(rng.Int63()))
		go func() {
			defer batchWG.Done()
			for {
				select {
				case <-stop:
					return
				default:
				}
				if r.Intn(4) == 0 {
					be.DeleteAll(bg)
				}
				time.Sleep(time.Duration(r.Intn(50)) * time.Microsecond)
			}
		}()
	}
	// reapers delete other goroutines' keys: several Deletes of one key race, only one of them removes the entry
	for g := 0; g < 3; g++ {
		batchWG.Add(1)
		r := rand.New(rand.NewSource(rng.Int63()))
		go func() {
			defer batchWG.Done()
			for {
				select {
				case <-stop:
					return
				default:
				}
				be.Delete(bg, []byte(fmt.Sprintf("u%d-%d", r.Intn(workers), r.Intn(per))))
			}
		}()
	}
	for w := 0; w < workers; w++ {
		wg.Add(1)
		r := rand.New(rand.NewSource(rng.Int63()))
		go func(w int) {
			defer wg.Done()
			for i := 0; i < per; i++ {
				k := []byte(fmt.Sprintf("u%d-%d", w, i))
				be.Write(bg, k, "v")
				atomic.AddInt64(&writes, 1)
				if r.Intn(2) == 0 {
					be.Delete(bg, k)
				}
				if r.Intn(3) == 0 {
					be.Read(bg, k)
					atomic.AddInt64(&reads, 1)
				}
			}
		}(w)
	}
	wg.Wait()
	close(stop)
	batchWG.Wait()
	b.R.Eval()
	b.R.Count("c.conservation", 1)
	final := be.Len()
	want := map[string]float64{"cache_write{be}": float64(writes), "cache_delete{be}": float64(writes) - float64(final)}
	got := func(k string) float64 { return l.get(k) }
	c18Compare(b, idx, "conservation/"+kind, got, want, map[string]interface{}{"backend": kind, "workers": workers, "writes": writes, "final_len": final})
	if s := l.get("cache_hit{be}") + l.get("cache_miss{be}") + l.get("cache_expired{be}"); s != float64(reads) {
		b.R.Violate(b, idx, "C18:conservation/"+kind+":reads", fmt.Sprintf("hit+miss+expired = %v, reads = %d", s, reads), nil)
	}
}

// c18PanickingBuilder: sequential lone Gets whose builder returns, fails or panics (the caller recovers); every builder
// invocation must be counted in cache_build exactly once.
func c18PanickingBuilder(b *Batch, idx int) {
	rng := rand.New(rand.NewSource(b.CaseSeed(idx) ^ 0x5bd1e995))
	l := &ledger{m: map[string]float64{}}
	generic := rng.Intn(2) == 0
	var get func(key []byte, mode int) (panicked bool)
	var invocations, failures float64
	if generic {
		f := cache.NewFailoverOf[string](cache.FailoverConfigOf[string]{Name: "pf", Stats: l, FailedUpdateTTL: -1}.Use)
		get = func(key []byte, mode int) (panicked bool) {
			defer func() {
				if recover() != nil {
					panicked = true
				}
			}()
			_, _ = f.Get(bg, key, func(context.Context) (string, error) {
				invocations++
				switch mode {
				case 1:
					failures++
					return "", fmt.Errorf("failing")
				case 2:
					panic("builder panic")
				}
				return "v", nil
			})
			return false
		}
	} else {
		f := cache.NewFailover(cache.FailoverConfig{Name: "pf", Stats: l, FailedUpdateTTL: -1}.Use)
		get = func(key []byte, mode int) (panicked bool) {
			defer func() {
				if recover() != nil {
					panicked = true
				}
			}()
			_, _ = f.Get(bg, key, func(context.Context) (interface{}, error) {
				invocations++
				switch mode {
				case 1:
					failures++
					return nil, fmt.Errorf("failing")
				case 2:
					panic("builder panic")
				}
				return "v", nil
			})
			return false
		}
	}
	n := 5 + rng.Intn(20)
	var modes []int
	for i := 0; i < n; i++ {
		mode := rng.Intn(3)
		modes = append(modes, mode)
		key := []byte(fmt.Sprintf("pk-%d", rng.Intn(6)))
		done := make(chan struct{})
		go func() { get(key, mode); close(done) }()
		select {
		case <-done:
		case <-time.After(5 * time.Second):
			b.R.Violate(b, idx, "C18:panicking-builder:blocked", "a Get blocked after an earlier builder panic on the same key", map[string]interface{}{"modes": modes})
			return
		}
	}
	b.R.Eval()
	b.R.Count("d.panicking_builder_runs", 1)
	api := "Failover"
	if generic {
		api = "FailoverOf"
	}
	want := map[string]float64{"cache_build{pf}": invocations, "cache_failed{pf}": failures}
	c18Compare(b, idx, "panicking-builder/"+api, l.get, want, map[string]interface{}{"modes(0=ok,1=err,2=panic)": modes})
}

// c18Eviction: removals that are not Delete/DeleteAll calls - evictions and expired-entry cleanup by the janitor - must
// not show up in cache_delete (and every explicit Delete still does, once).
func c18Eviction(b *Batch, idx int) {
	rng := rand.New(rand.NewSource(b.CaseSeed(idx) ^ 0x77aa))
	kind := backendKinds[rng.Intn(3)]
	l := &ledger{m: map[string]float64{}}
	L := 20 + rng.Intn(60)
	be := newBackend(kind, cache.Config{Name: "ev", Stats: l, CountSoftLimit: uint64(L), DeleteExpiredJobInterval: time.Millisecond,
		DeleteExpiredAfter: time.Millisecond, EvictionStrategy: c16Strategies[rng.Intn(3)]})
	n := 3*L + rng.Intn(3*L)
	for i := 0; i < n; i++ {
		be.Write(bg, []byte(fmt.Sprintf("ev-%d", i)), "v")
	}
	nDead := rng.Intn(20)
	for i := 0; i < nDead; i++ {
		be.Write(cache.WithTTL(bg, -time.Hour, false), []byte(fmt.Sprintf("dead-%d", i)), "v")
	}
	for dl := time.Now().Add(10 * time.Second); be.Len() > L && time.Now().Before(dl); {
		time.Sleep(200 * time.Microsecond)
	}
	b.R.Eval()
	if be.Len() > L {
		b.R.Inconcl("C18 eviction family: the janitor did not bring the cache under its limit within the watchdog")
		return
	}
	// explicit deletes of whatever is left
	var left []string
	be.Walk(func(k []byte, _ interface{}, _ time.Time) error { left = append(left, string(k)); return nil })
	del := 0
	for i, k := range left {
		if i%3 == 0 && be.Delete(bg, []byte(k)) == nil {
			del++
		}
	}
	runtime.KeepAlive(be)
	b.R.Count("eviction.cases", 1)
	b.R.Nontrivial(fmt.Sprintf("eviction/%s/L=%d", kind, L/20*20))
	w := map[string]interface{}{"backend": kind, "limit": L, "written": n, "long_expired": nDead, "explicit_deletes": del}
	if got := l.get("cache_delete{ev}"); got != float64(del) {
		b.R.Violate(b, idx, "C18:backend/"+kind+":cache_delete-counts-evictions", fmt.Sprintf("%s: cache_delete = %v after %d successful Delete calls (evictions by the janitor: cache_evict = %v, %d long-expired entries cleaned up)", kind, got, del, l.get("cache_evict{ev}"), nDead), w)
	}
}

type c18SlowStats struct {
	*ledger
	delay time.Duration
}

func (s c18SlowStats) Add(ctx context.Context, name string, inc float64, labels ...string) {
	s.ledger.Add(ctx, name, inc, labels...)
	if name == cache.MetricRefreshed {
		time.Sleep(s.delay) // a slow metrics sink: time passes between the count and the store
	}
}

type c18CountingRW struct {
	rw      cache.ReadWriter
	refresh *int64
	updTTL  time.Duration
}

func (c c18CountingRW) Read(ctx context.Context, k []byte) (interface{}, error) { return c.rw.Read(ctx, k) }
func (c c18CountingRW) Write(ctx context.Context, k []byte, v interface{}) error {
	if cache.TTL(ctx) == c.updTTL {
		atomic.AddInt64(c.refresh, 1)
	}
	return c.rw.Write(ctx, k, v)
}

// c18RefreshBoundary: cache_refreshed counts the stale re-stores - also when the stale value crosses MaxStaleness while the
// Get is on its way (a slow metrics sink makes that window wide). Whatever the Get decides, the count equals the re-stores
// the backend has seen.
func c18RefreshBoundary(b *Batch, idx int) {
	rng := rand.New(rand.NewSource(b.CaseSeed(idx) ^ 0x1f3d))
	ms := time.Duration(20+rng.Intn(20)) * time.Millisecond
	const upd = 77 * time.Second
	l := &ledger{m: map[string]float64{}}
	var refreshWrites int64
	kind := []string{"ShardedMap", "SyncMap"}[rng.Intn(2)]
	be := newBackend(kind, cache.Config{})
	var rw cache.ReadWriter
	switch a := be.(type) {
	case smAdapter:
		rw = a.m
	case syAdapter:
		rw = a.m
	}
	f := cache.NewFailover(cache.FailoverConfig{Name: "rb", Backend: c18CountingRW{rw: rw, refresh: &refreshWrites, updTTL: upd}, Stats: c18SlowStats{l, 2 * ms},
		MaxStaleness: ms, UpdateTTL: upd, SyncUpdate: rng.Intn(2) == 0, FailedUpdateTTL: -1}.Use)
	n := 2 + rng.Intn(4)
	for i := 0; i < n; i++ {
		key := []byte(fmt.Sprintf("rb-%d", i))
		_ = rw.Write(cache.WithTTL(bg, -ms/2, false), key, "stale") // expired, still inside MaxStaleness for another ms/2
		_, _ = f.Get(bg, key, func(context.Context) (interface{}, error) { return nil, errors.New("source down") })
	}
	time.Sleep(5 * time.Millisecond)
	b.R.Eval()
	b.R.Count("refresh_boundary.cases", 1)
	got := l.get("cache_refreshed{rb}")
	b.R.Count("refresh_boundary.refreshes", int64(got))
	b.R.Nontrivial(fmt.Sprintf("refresh-boundary/%s/ms=%v", kind, ms/(10*time.Millisecond)*10*time.Millisecond))
	if got != float64(atomic.LoadInt64(&refreshWrites)) {
		b.R.Violate(b, idx, "C18:failover/Failover:cache_refreshed-vs-restores", fmt.Sprintf("cache_refreshed = %v but the backend saw %d stale re-stores (MaxStaleness %v, value expired %v before the Get, metrics sink takes %v per call)", got, atomic.LoadInt64(&refreshWrites), ms, ms/2, 2*ms),
			map[string]interface{}{"max_staleness": ms.String(), "gets": n})
	}
}
