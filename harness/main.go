// Command vh is the verification harness for github.com/bool64/cache.
//
// vh run <ID> <quick|thorough>          driver: spawns child batches, aggregates, writes evidence
// vh run <ID> --replay <file>           re-executes the single case recorded in a replay file
// vh child <ID> <tier> <seed> <batch> <nbatches> <only> <out>   one batch (internal)
package main

import (
	"encoding/json"
	"fmt"
	"os"
	"os/exec"
	"path/filepath"
	"runtime"
	"sort"
	"strconv"
	"strings"
	"sync"
	"time"
)

const verifRoot = "/verif"

// Violation is one refuted case.
type Violation struct {
	Sig    string      `json:"sig"` // stable signature, matched against known_findings.json
	Msg    string      `json:"msg"`
	Case   int         `json:"case"`
	Batch  int         `json:"batch"`
	Replay interface{} `json:"witness,omitempty"`
}

// Result is what a child batch reports and what the driver aggregates.
type Result struct {
	Evals        int64              `json:"evals"`
	Counters     map[string]int64   `json:"counters"`
	Distinct     map[string]bool    `json:"distinct"` // signatures of distinct non-trivial cases
	Samples      []interface{}      `json:"samples"`
	Violations   []Violation        `json:"violations"`
	NViol        int64              `json:"nviol"`
	Inconclusive int64              `json:"inconclusive"`
	Notes        []string           `json:"notes"`
	Sets         map[string]map[string]bool `json:"sets"` // named coverage sets
	mu           sync.Mutex
}

func newResult() *Result {
	return &Result{Counters: map[string]int64{}, Distinct: map[string]bool{}, Sets: map[string]map[string]bool{}}
}

func (r *Result) Count(name string, n int64) {
	r.mu.Lock()
	r.Counters[name] += n
	r.mu.Unlock()
}

func (r *Result) Eval() { r.mu.Lock(); r.Evals++; r.mu.Unlock() }

// Nontrivial records the signature of a non-trivial (armed) case.
func (r *Result) Nontrivial(sig string) {
	r.mu.Lock()
	if len(r.Distinct) < 400000 {
		r.Distinct[sig] = true
	}
	r.mu.Unlock()
}

func (r *Result) SetAdd(set, item string) {
	r.mu.Lock()
	m := r.Sets[set]
	if m == nil {
		m = map[string]bool{}
		r.Sets[set] = m
	}
	if len(m) < 100000 {
		m[item] = true
	}
	r.mu.Unlock()
}

func (r *Result) Sample(s interface{}) {
	r.mu.Lock()
	if len(r.Samples) < 3 {
		r.Samples = append(r.Samples, s)
	}
	r.mu.Unlock()
}

func (r *Result) Note(s string) {
	r.mu.Lock()
	if len(r.Notes) < 20 {
		r.Notes = append(r.Notes, s)
	}
	r.mu.Unlock()
}

func (r *Result) Violate(b *Batch, caseIdx int, sig, msg string, witness interface{}) {
	r.mu.Lock()
	r.NViol++
	if len(r.Violations) < 40 {
		r.Violations = append(r.Violations, Violation{Sig: sig, Msg: msg, Case: caseIdx, Batch: b.Index, Replay: witness})
	}
	r.mu.Unlock()
}

func (r *Result) Inconcl(msg string) {
	r.mu.Lock()
	r.Inconclusive++
	if len(r.Notes) < 20 {
		r.Notes = append(r.Notes, "inconclusive: "+msg)
	}
	r.mu.Unlock()
}

func (r *Result) merge(o *Result) {
	r.Evals += o.Evals
	for k, v := range o.Counters {
		r.Counters[k] += v
	}
	for k := range o.Distinct {
		r.Distinct[k] = true
	}
	for s, m := range o.Sets {
		for k := range m {
			if r.Sets[s] == nil {
				r.Sets[s] = map[string]bool{}
			}
			r.Sets[s][k] = true
		}
	}
	for _, s := range o.Samples {
		if len(r.Samples) < 4 {
			r.Samples = append(r.Samples, s)
		}
	}
	r.Violations = append(r.Violations, o.Violations...)
	r.NViol += o.NViol
	r.Inconclusive += o.Inconclusive
	for _, n := range o.Notes {
		if len(r.Notes) < 40 {
			r.Notes = append(r.Notes, n)
		}
	}
}

// Batch is the unit of work of one child process.
type Batch struct {
	ID       string
	Tier     string
	Seed     int64 // VERIF_SEED
	Index    int
	NBatches int
	Only     int // >=0: run only this case index (replay)
	R        *Result
	out      string
}

func (b *Batch) flush() {
	b.R.mu.Lock()
	data, err := json.Marshal(b.R)
	b.R.mu.Unlock()
	if err != nil {
		fmt.Fprintln(os.Stderr, "marshal:", err)
		os.Exit(2)
	}
	if err := os.WriteFile(b.out, data, 0o644); err != nil {
		fmt.Fprintln(os.Stderr, "write:", err)
		os.Exit(2)
	}
}

// Guard runs one single-goroutine case and decides "an operation never returns": if the case has not finished after
// guardLimit and its goroutine has been parked in a sync.Mutex/RWMutex acquisition with an unchanged stack for the
// whole second half of that time (nobody else is running who could release the lock), the call is blocked for good:
// violation with the stack as witness, and the batch ends there (the process cannot continue past a deadlock). Anything
// else that exceeds the limit is inconclusive.
func (b *Batch) Guard(idx int, sigPrefix string, fn func()) {
	done := make(chan struct{})
	var gid int64
	ready := make(chan struct{})
	go func() {
		defer close(done)
		gid = curGoroutineID()
		close(ready)
		fn()
	}()
	<-ready
	limit := guardLimit
	select {
	case <-done:
		return
	case <-time.After(limit / 2):
	}
	first := goroutineStack(gid)
	select {
	case <-done:
		return
	case <-time.After(limit / 2):
	}
	second := goroutineStack(gid)
	locked := strings.Contains(second, "sync.runtime_SemacquireRWMutex") || strings.Contains(second, "sync.runtime_SemacquireMutex") || strings.Contains(second, "sync.runtime_Semacquire(")
	if first == second && locked && strings.Contains(second, "github.com/bool64/cache.") {
		b.R.Violate(b, idx, sigPrefix+":operation-blocked", fmt.Sprintf("%s: a call into the library has been waiting for a lock for %v with no other goroutine of the case running; stack:\n%s", sigPrefix, limit/2, second), map[string]interface{}{"stack": second})
	} else {
		b.R.Inconcl(fmt.Sprintf("%s case %d exceeded %v without a stable lock wait", sigPrefix, idx, limit))
	}
	b.flush()
	os.Exit(0)
}

var guardLimit = 20 * time.Second

func curGoroutineID() int64 {
	buf := make([]byte, 64)
	buf = buf[:runtime.Stack(buf, false)]
	// "goroutine 123 ["
	f := strings.Fields(string(buf))
	if len(f) < 2 {
		return -1
	}
	n, _ := strconv.ParseInt(f[1], 10, 64)
	return n
}

// goroutineStack returns the stack block of goroutine gid without its header line (which carries a wait duration).
func goroutineStack(gid int64) string {
	buf := make([]byte, 1<<20)
	for {
		n := runtime.Stack(buf, true)
		if n < len(buf) {
			buf = buf[:n]
			break
		}
		buf = make([]byte, 2*len(buf))
	}
	hdr := fmt.Sprintf("goroutine %d [", gid)
	for _, blk := range strings.Split(string(buf), "\n\n") {
		if strings.HasPrefix(blk, hdr) {
			if i := strings.IndexByte(blk, '\n'); i >= 0 {
				return blk[i+1:]
			}
		}
	}
	return ""
}

// CaseSeed derives the PRNG seed of case i of this batch; a case is reproducible on its own.
func (b *Batch) CaseSeed(i int) int64 {
	return int64(mix64(uint64(b.Seed)*0x9E3779B97F4A7C15 ^ uint64(b.Index+1)*0xC2B2AE3D27D4EB4F ^ uint64(i+1)*0x165667B19E3779F9 ^ hashStr(b.ID)))
}

// Skip reports whether case i is not to be run: another case is being replayed, or the batch already holds plenty of
// violations (the verdict is settled; on a badly broken tree every further case may cost a watchdog period).
func (b *Batch) Skip(i int) bool {
	if b.Only >= 0 {
		return i != b.Only
	}
	b.R.mu.Lock()
	many := b.R.NViol >= 12
	b.R.mu.Unlock()
	return many
}

func (b *Batch) Thorough() bool { return b.Tier == "thorough" }

// Pick returns q for the quick tier and t for the thorough tier.
func (b *Batch) Pick(q, t int) int {
	if b.Thorough() {
		return t
	}
	return q
}

func mix64(x uint64) uint64 {
	x ^= x >> 33
	x *= 0xff51afd7ed558ccd
	x ^= x >> 33
	x *= 0xc4ceb9fe1a85ec53
	x ^= x >> 33
	return x
}

func hashStr(s string) uint64 {
	var h uint64 = 14695981039346656037
	for i := 0; i < len(s); i++ {
		h ^= uint64(s[i])
		h *= 1099511628211
	}
	return h
}

// Engine decides one property.
type Engine struct {
	ID          string
	Race        bool // children run the -race build
	Batches     func(tier string) int
	Run         func(b *Batch)
	Rule        string   // how cases are generated / what is non-trivial
	Required    []string // counters that must be >0 or the run "observed nothing" and fails as broken
	Assumptions []string
	Exhaustive  bool
	Timeout     func(tier string) time.Duration // per child
	MaxProcs    int                             // parallel children (0 = NumCPU)
	ChildEnv    []string
	Finalize    func(agg *Result, tier string) []string // extra broken-conditions (returns reasons)
}

var engines = map[string]*Engine{}

func register(e *Engine) { engines[e.ID] = e }

func main() {
	if len(os.Args) < 3 {
		fmt.Fprintln(os.Stderr, "usage: vh run <ID> <quick|thorough|--replay file>")
		os.Exit(2)
	}
	switch os.Args[1] {
	case "run":
		os.Exit(drive(os.Args[2], os.Args[3:]))
	case "child":
		child(os.Args[2:])
	case "typeshash": // helper child for C14
		typesHashChild(os.Args[2:])
	case "exporter": // helper child for C14
		exporterChild(os.Args[2:])
	case "latereg": // helper child for C14
		lateRegChild(os.Args[2:])
	case "hexhash": // helper child for C14
		hexHashChild(os.Args[2:])
	default:
		fmt.Fprintln(os.Stderr, "unknown mode")
		os.Exit(2)
	}
}

func child(a []string) {
	// ID tier seed batch nbatches only out
	id, tier := a[0], a[1]
	seed, _ := strconv.ParseInt(a[2], 10, 64)
	bi, _ := strconv.Atoi(a[3])
	nb, _ := strconv.Atoi(a[4])
	only, _ := strconv.Atoi(a[5])
	out := a[6]
	e := engines[id]
	if e == nil {
		fmt.Fprintln(os.Stderr, "no engine", id)
		os.Exit(2)
	}
	b := &Batch{ID: id, Tier: tier, Seed: seed, Index: bi, NBatches: nb, Only: only, R: newResult(), out: out}
	// some batches run with a processor count that does not divide the shard count (work split per CPU must not lose a remainder)
	if p := []int{0, 0, 3, 0, 6, 0, 5, 0}[bi%8]; p != 0 {
		runtime.GOMAXPROCS(p)
	}
	e.Run(b)
	b.flush()
}

type knownFinding struct {
	Property string `json:"property"`
	Sig      string `json:"sig"`    // exact signature or prefix ending in '*'
	Status   string `json:"status"` // "open" or "fixed"
	Commit   string `json:"commit,omitempty"`
	What     string `json:"what"`
}

func loadKnown() []knownFinding {
	var kf struct {
		Findings []knownFinding `json:"findings"`
	}
	data, err := os.ReadFile(filepath.Join(verifRoot, "known_findings.json"))
	if err != nil {
		return nil
	}
	if err := json.Unmarshal(data, &kf); err != nil {
		fmt.Fprintln(os.Stderr, "known_findings.json:", err)
		os.Exit(2)
	}
	return kf.Findings
}

func matchKnown(kfs []knownFinding, prop, sig string) *knownFinding {
	for i := range kfs {
		k := &kfs[i]
		if k.Property != prop || k.Status != "open" {
			continue
		}
		if k.Sig == sig || (strings.HasSuffix(k.Sig, "*") && strings.HasPrefix(sig, strings.TrimSuffix(k.Sig, "*"))) {
			return k
		}
	}
	return nil
}

func drive(id string, args []string) int {
	e := engines[id]
	if e == nil {
		fmt.Fprintln(os.Stderr, "no engine for", id)
		return 2
	}
	tier := "quick"
	only, onlyBatch := -1, -1
	seed := int64(1)
	if s := os.Getenv("VERIF_SEED"); s != "" {
		if v, err := strconv.ParseInt(s, 10, 64); err == nil {
			seed = v
		}
	}
	if t := os.Getenv("VERIF_TIER"); t == "quick" || t == "thorough" {
		tier = t
	}
	replay := false
	if len(args) > 0 {
		switch args[0] {
		case "quick", "thorough":
			tier = args[0]
		case "--replay":
			if len(args) < 2 {
				fmt.Fprintln(os.Stderr, "--replay needs a file")
				return 2
			}
			data, err := os.ReadFile(args[1])
			if err != nil {
				fmt.Fprintln(os.Stderr, err)
				return 2
			}
			var rf replayFile
			if err := json.Unmarshal(data, &rf); err != nil {
				fmt.Fprintln(os.Stderr, err)
				return 2
			}
			tier, seed, only, onlyBatch = rf.Tier, rf.Seed, rf.Case, rf.Batch
			replay = true
		}
	}
	start := time.Now()
	nb := 1
	if e.Batches != nil {
		nb = e.Batches(tier)
	}
	scratch, err := os.MkdirTemp("", "verif-"+id+"-")
	if err != nil {
		fmt.Fprintln(os.Stderr, err)
		return 2
	}
	defer os.RemoveAll(scratch)

	self, _ := os.Executable()
	bin := self
	if e.Race {
		bin = os.Getenv("VH_RACE_BIN")
		if bin == "" {
			fmt.Fprintln(os.Stderr, "VH_RACE_BIN not set")
			return 2
		}
	}
	timeout := 45 * time.Minute
	if e.Timeout != nil {
		timeout = e.Timeout(tier)
	}
	procs := e.MaxProcs
	if procs <= 0 {
		procs = runtime.NumCPU()
	}
	agg := newResult()
	var mu sync.Mutex
	var wg sync.WaitGroup
	sem := make(chan struct{}, procs)
	broken := []string{}
	for bi := 0; bi < nb; bi++ {
		if onlyBatch >= 0 && bi != onlyBatch {
			continue
		}
		wg.Add(1)
		sem <- struct{}{}
		go func(bi int) {
			defer wg.Done()
			defer func() { <-sem }()
			out := filepath.Join(scratch, fmt.Sprintf("b%d.json", bi))
			logf := filepath.Join(scratch, fmt.Sprintf("b%d.log", bi))
			lf, _ := os.Create(logf)
			cmd := exec.Command(bin, "child", id, tier, strconv.FormatInt(seed, 10), strconv.Itoa(bi), strconv.Itoa(nb), strconv.Itoa(only), out)
			cmd.Stdout = lf
			cmd.Stderr = lf
			cmd.Env = append(os.Environ(), "VH_SCRATCH="+scratch, "VH_SELF="+self)
			cmd.Env = append(cmd.Env, e.ChildEnv...)
			if e.Race {
				cmd.Env = append(cmd.Env, "GORACE=halt_on_error=0 exitcode=0 log_path="+filepath.Join(scratch, fmt.Sprintf("race-b%d", bi)))
			}
			done := make(chan error, 1)
			if err := cmd.Start(); err != nil {
				mu.Lock()
				broken = append(broken, "start child: "+err.Error())
				mu.Unlock()
				return
			}
			go func() { done <- cmd.Wait() }()
			var werr error
			timedOut := false
			select {
			case werr = <-done:
			case <-time.After(timeout):
				timedOut = true
				_ = cmd.Process.Signal(sigQuit)
				select {
				case werr = <-done:
				case <-time.After(10 * time.Second):
					_ = cmd.Process.Kill()
					werr = <-done
				}
			}
			lf.Close()
			data, rerr := os.ReadFile(out)
			res := newResult()
			ok := rerr == nil && json.Unmarshal(data, res) == nil
			mu.Lock()
			defer mu.Unlock()
			if ok {
				if res.Counters == nil {
					res.Counters = map[string]int64{}
				}
				agg.merge(res)
			}
			// race reports are attributed by the engine-independent scanner
			if e.Race {
				scanRaceLogs(id, scratch, bi, agg)
			}
			if timedOut {
				agg.Inconclusive++
				agg.Notes = append(agg.Notes, fmt.Sprintf("batch %d: watchdog %s fired (inconclusive); log tail: %s", bi, timeout, tail(logf, 1500)))
				return
			}
			if werr != nil || !ok {
				// the child died: panic / fatal error / checkptr — a violation witnessed by its output
				t := tail(logf, 6000)
				sig := id + ":child-died:" + crashSig(t)
				agg.NViol++
				agg.Violations = append(agg.Violations, Violation{Sig: sig, Msg: fmt.Sprintf("child batch %d died: %v", bi, werr), Case: -1, Batch: bi, Replay: map[string]interface{}{"output_tail": t}})
			}
		}(bi)
	}
	wg.Wait()
	wall := time.Since(start).Seconds()

	if replay {
		fmt.Printf("replay of %s case %d batch %d: %d violation(s)\n", id, only, onlyBatch, agg.NViol)
		for _, v := range agg.Violations {
			fmt.Printf("  %s: %s\n", v.Sig, v.Msg)
		}
		if agg.NViol > 0 {
			return 1
		}
		return 0
	}

	// known findings
	kfs := loadKnown()
	knownSeen := map[string]*knownFinding{}
	unknown := []Violation{}
	for _, v := range agg.Violations {
		if k := matchKnown(kfs, id, v.Sig); k != nil {
			knownSeen[k.Sig] = k
			continue
		}
		unknown = append(unknown, v)
	}
	// violations beyond the stored cap are unknown unless everything stored was known
	extra := agg.NViol - int64(len(agg.Violations))

	for _, r := range e.Required {
		if agg.Counters[r] == 0 {
			broken = append(broken, "required observation counter is zero: "+r)
		}
	}
	if e.Finalize != nil {
		broken = append(broken, e.Finalize(agg, tier)...)
	}
	if agg.Evals > 0 && agg.Inconclusive*20 > agg.Evals {
		broken = append(broken, fmt.Sprintf("inconclusive share too high: %d of %d", agg.Inconclusive, agg.Evals))
	}
	if agg.Evals == 0 {
		broken = append(broken, "no evaluations")
	}
	if len(agg.Distinct) < 2 {
		broken = append(broken, "fewer than 2 distinct non-trivial cases observed")
	}

	writeEvidence(e, agg, tier, seed, wall, len(unknown)+int(max64(0, extra)))

	for _, k := range knownSeen {
		fmt.Printf("KNOWN-FINDING: property=%s %s [%s]\n", id, k.What, k.Sig)
	}
	rc := 0
	if len(unknown) > 0 || (extra > 0 && len(unknown) == 0 && len(knownSeen) == 0) {
		os.MkdirAll(filepath.Join(verifRoot, "replays"), 0o755)
		seen := map[string]bool{}
		for _, v := range unknown {
			if seen[v.Sig] {
				continue
			}
			seen[v.Sig] = true
			if len(seen) > 8 {
				break
			}
			path := filepath.Join(verifRoot, "replays", fmt.Sprintf("%s-%s-s%d-b%d-c%d.json", id, sanitize(v.Sig), seed, v.Batch, v.Case))
			rf := replayFile{Property: id, Tier: tier, Seed: seed, Batch: v.Batch, Case: v.Case, Sig: v.Sig, Msg: v.Msg, Witness: v.Replay}
			data, _ := json.MarshalIndent(rf, "", " ")
			_ = os.WriteFile(path, data, 0o644)
			fmt.Printf("VIOLATION property=%s replay=%s\n", id, path)
			fmt.Printf("  %s: %s\n", v.Sig, v.Msg)
		}
		rc = 1
	}
	if os.Getenv("VERIF_LIST_ALL") == "1" {
		cnt := map[string]int{}
		msg := map[string]string{}
		for _, v := range unknown {
			cnt[v.Sig]++
			msg[v.Sig] = v.Msg
		}
		var sigs []string
		for s := range cnt {
			sigs = append(sigs, s)
		}
		sort.Strings(sigs)
		for _, s := range sigs {
			fmt.Printf("SIG %d %s :: %s\n", cnt[s], s, trunc(msg[s], 200))
		}
	}
	keys := make([]string, 0, len(agg.Counters))
	for k := range agg.Counters {
		keys = append(keys, k)
	}
	sort.Strings(keys)
	fmt.Printf("%s %s seed=%d: evaluations=%d distinct_nontrivial=%d violations=%d known=%d inconclusive=%d wall=%.1fs\n",
		id, tier, seed, agg.Evals, len(agg.Distinct), len(unknown), len(knownSeen), agg.Inconclusive, wall)
	for _, k := range keys {
		fmt.Printf("  %-40s %d\n", k, agg.Counters[k])
	}
	for _, n := range agg.Notes {
		fmt.Println("  note:", n)
	}
	if rc == 0 && len(broken) > 0 {
		for _, b := range broken {
			fmt.Println("BROKEN-CHECK:", b)
		}
		return 2
	}
	return rc
}

type replayFile struct {
	Property string      `json:"property"`
	Tier     string      `json:"tier"`
	Seed     int64       `json:"seed"`
	Batch    int         `json:"batch"`
	Case     int         `json:"case"`
	Sig      string      `json:"sig"`
	Msg      string      `json:"msg"`
	Witness  interface{} `json:"witness"`
}

func max64(a, b int64) int64 {
	if a > b {
		return a
	}
	return b
}

func sanitize(s string) string {
	var sb strings.Builder
	for _, c := range s {
		if (c >= 'a' && c <= 'z') || (c >= 'A' && c <= 'Z') || (c >= '0' && c <= '9') || c == '-' || c == '_' {
			sb.WriteRune(c)
		} else {
			sb.WriteByte('_')
		}
		if sb.Len() > 60 {
			break
		}
	}
	return sb.String()
}

func tail(path string, n int) string {
	data, err := os.ReadFile(path)
	if err != nil {
		return ""
	}
	if len(data) > n {
		// prefer the beginning of a crash report: find "panic:" or "fatal error:"
		s := string(data)
		for _, marker := range []string{"fatal error:", "panic:", "WARNING: DATA RACE"} {
			if i := strings.Index(s, marker); i >= 0 {
				end := i + n
				if end > len(s) {
					end = len(s)
				}
				return s[i:end]
			}
		}
		data = data[len(data)-n:]
	}
	return string(data)
}

// crashSig reduces a crash output to a stable signature: the panic / fatal message and first cache frame.
func crashSig(out string) string {
	msg := "unknown"
	for _, line := range strings.Split(out, "\n") {
		l := strings.TrimSpace(line)
		if strings.HasPrefix(l, "panic:") || strings.HasPrefix(l, "fatal error:") {
			msg = l
			break
		}
	}
	frame := ""
	for _, line := range strings.Split(out, "\n") {
		l := strings.TrimSpace(line)
		if strings.HasPrefix(l, "github.com/bool64/cache.") {
			if i := strings.Index(l, "("); i > 0 {
				l = l[:i]
			}
			frame = l
			break
		}
	}
	// strip addresses / numbers from the message
	var sb strings.Builder
	for _, c := range msg {
		if c >= '0' && c <= '9' {
			continue
		}
		sb.WriteRune(c)
	}
	return sb.String() + "@" + frame
}

func writeEvidence(e *Engine, agg *Result, tier string, seed int64, wall float64, nviol int) {
	if os.Getenv("VERIF_NO_EVIDENCE") == "1" { // mutation self-tests must not overwrite evidence of the real tree
		return
	}
	cov := map[string]interface{}{
		"evaluations":         agg.Evals,
		"distinct_nontrivial": len(agg.Distinct),
		"rule":                e.Rule,
		"samples":             agg.Samples,
		"counters":            agg.Counters,
		"inconclusive":        agg.Inconclusive,
	}
	if len(agg.Samples) == 0 {
		cov["samples"] = []interface{}{"(no sample recorded)"}
	}
	if e.Exhaustive {
		cov["exhaustive"] = true
	}
	sets := map[string]interface{}{}
	for name, m := range agg.Sets {
		items := make([]string, 0, len(m))
		for k := range m {
			items = append(items, k)
		}
		sort.Strings(items)
		entry := map[string]interface{}{"size": len(items)}
		if len(items) <= 80 {
			entry["items"] = items
		} else {
			entry["items_head"] = items[:80]
		}
		sets[name] = entry
	}
	if len(sets) > 0 {
		cov["coverage_sets"] = sets
	}
	if len(agg.Notes) > 0 {
		cov["notes"] = agg.Notes
	}
	ev := map[string]interface{}{
		"property_id": e.ID,
		"tier":        tier,
		"seed":        seed,
		"level":       "exploration",
		"coverage":    cov,
		"assumptions": e.Assumptions,
		"wall_s":      wall,
		"violations":  nviol,
	}
	if e.Assumptions == nil {
		ev["assumptions"] = []string{}
	}
	data, _ := json.MarshalIndent(ev, "", " ")
	os.MkdirAll(filepath.Join(verifRoot, "evidence"), 0o755)
	_ = os.WriteFile(filepath.Join(verifRoot, "evidence", e.ID+".json"), append(data, '\n'), 0o644)
}
