package main

import (
	"bytes"
	"context"
	"errors"
	"fmt"
	"math"
	"math/rand"
	"time"

	"github.com/bool64/cache"
)

// C10: every entry's expiry lies within the documented TTL bounds.

func init() {
	register(&Engine{
		ID:      "C10",
		Batches: func(tier string) int { return 16 },
		Run:     runC10,
		Rule: "seeded (backend, config TimeToLive in {default,Unlimited,1ns..100y}, ctx TTL in {none,0,+-1ns..+-100y}, jitter in {default,-1,(0,1]}) writes; " +
			"expiry from Walk().ExpireAt() is checked against [t0+T-|T|J/2-eps, t1+T+|T|J/2+eps] with wall-clock brackets t0/t1 around the Write; reads before/after expiry checked; " +
			"per batch a distribution block (2000 writes each for J=1.0 and J=default) must populate both halves and both outer deciles of the jitter interval; " +
			"distinct_nontrivial = distinct (backend, config class, ctx class, jitter class, magnitude decade) cells with a finite effective TTL",
		Required: []string{"restored.checked", "trait_ttl.checked", "writes", "writes.store", "writes.overwrite", "via_failover.writes", "via_failover.after_failed_build", "bounds.checked", "unlimited.checked", "read.hit.checked", "read.expired.checked", "dist.blocks", "via_failover.over_stale_entry"},
		Assumptions: []string{
			"wall clock (time.Now().UnixNano) is not stepped backwards/forwards during a run",
			"eps = 2ns + |T|*2^-52 covers float64 rounding of the jitter product",
		},
	})
}

func randDuration(rng *rand.Rand) time.Duration {
	// log-uniform magnitude between 1ns and 100 years
	maxNs := float64(100 * 365 * 24 * time.Hour)
	switch rng.Intn(8) {
	case 0:
		return time.Duration(1 + rng.Intn(3)) // 1..3ns
	case 1:
		return time.Duration(maxNs) - time.Duration(rng.Int63n(1000))
	}
	e := rng.Float64() * math.Log(maxNs)
	d := time.Duration(math.Exp(e))
	if d < 1 {
		d = 1
	}
	if d > time.Hour {
		d += time.Duration(rng.Int63n(4096)) // long TTLs that are not exactly representable as float64
	}
	return d
}

func runC10(b *Batch) {
	n := b.Pick(200000, 32000000) / b.NBatches
	for i := 0; i < n; i++ {
		if b.Skip(i) {
			continue
		}
		if i%64 == 63 {
			c10ViaFailover(b, i)
			continue
		}
		c10Case(b, i)
	}
	if b.Only < 0 {
		for bi, kind := range backendKinds {
			c10Dist(b, n+bi*2, kind, 1.0)
			c10Dist(b, n+bi*2+1, kind, 0) // default 0.1
		}
	}
}

func c10Case(b *Batch, idx int) {
	rng := rand.New(rand.NewSource(b.CaseSeed(idx)))
	kind := backendKinds[rng.Intn(3)]
	var cfgTTL time.Duration
	cfgClass := "default"
	switch rng.Intn(4) {
	case 0:
	case 1:
		cfgTTL, cfgClass = cache.UnlimitedTTL, "unlimited"
	default:
		cfgTTL, cfgClass = randDuration(rng), "custom"
		if cfgTTL == 1 { // keep away from 0 after jitter only matters for exactness; 1ns is allowed
		}
	}
	jit := 0.0
	jitClass := "default"
	switch rng.Intn(4) {
	case 0:
	case 1:
		jit, jitClass = -1, "off"
	case 2:
		jit, jitClass = 1.0, "1.0"
	default:
		jit, jitClass = 0.01+rng.Float64()*0.99, "frac"
	}
	ctx := context.Context(bg)
	ctxClass := "none"
	var ctxTTL time.Duration
	switch rng.Intn(5) {
	case 0:
	case 1:
		ctx, ctxClass = cache.WithTTL(bg, 0, false), "zero"
	case 2, 3:
		ctxTTL = randDuration(rng)
		ctx, ctxClass = cache.WithTTL(bg, ctxTTL, rng.Intn(2) == 0), "pos"
	default:
		ctxTTL = -randDuration(rng)
		ctx, ctxClass = cache.WithTTL(bg, ctxTTL, false), "neg"
	}
	strat := cache.EvictionStrategy(rng.Intn(3))
	mkCfg := func() cache.Config {
		return cache.Config{TimeToLive: cfgTTL, ExpirationJitter: jit, EvictionStrategy: strat}
	}
	be := newBackend(kind, mkCfg())
	// The exported Trait computes the TTL every backend applies: observe it directly (no clock bracket needed).
	if ctxTTL != 0 || cfgTTL != cache.UnlimitedTTL {
		T := ctxTTL
		if T == 0 {
			T = cfgTTL
			if cfgTTL == 0 {
				T = 5 * time.Minute
			}
		}
		J := jit
		if J == 0 {
			J = 0.1
		}
		got := cache.NewTrait(cache.Config{TimeToLive: cfgTTL, ExpirationJitter: jit}).TTL(ctx)
		b.R.Count("trait_ttl.checked", 1)
		absT := math.Abs(float64(T))
		if J < 0 {
			if got != T {
				b.R.Violate(b, idx, "C10:Trait:ttl-exact", fmt.Sprintf("jitter disabled: Trait.TTL = %d ns, want exactly %d ns (T=%v)", int64(got), int64(T), T), map[string]interface{}{"cfgTTL": cfgTTL.String(), "ctxTTL": ctxTTL.String()})
			}
		} else if d := math.Abs(float64(got - T)); d > absT*J/2+2+absT*math.Pow(2, -52) {
			b.R.Violate(b, idx, "C10:Trait:ttl-bounds", fmt.Sprintf("Trait.TTL = %v deviates %v from T=%v, allowed %v", got, time.Duration(d), T, time.Duration(absT*J/2)), nil)
		}
	}
	key := []byte(fmt.Sprintf("k%d", idx))
	val := fmt.Sprintf("v%d", idx)

	// The measured write may be an overwrite of an entry with a very different expiry, and may go through Store
	// (context-free entry point: effective TTL is the configured one).
	prior := "none"
	var priorVal interface{} = "old"
	if rng.Intn(2) == 0 {
		priorVal = val // rewriting the value that is already stored is still a write at time t with TTL T
	}
	switch rng.Intn(6) {
	case 0:
		prior = "expired"
		be.Write(cache.WithTTL(bg, -randDuration(rng), false), key, priorVal)
	case 1:
		prior = "longer"
		be.Write(cache.WithTTL(bg, 1000*time.Hour+randDuration(rng), false), key, priorVal)
	case 2:
		prior = "config"
		be.Write(bg, key, priorVal)
	}
	if prior != "none" && priorVal == interface{}(val) {
		prior += "+equal-value"
	}
	viaStore := be.HasLoadStore() && rng.Intn(4) == 0
	if viaStore {
		ctx, ctxClass, ctxTTL = bg, "store", 0
	}
	var err error
	t0 := time.Now().UnixNano()
	if viaStore {
		be.Store(key, val)
	} else {
		err = be.Write(ctx, key, val)
	}
	t1 := time.Now().UnixNano()
	b.R.Eval()
	b.R.Count("writes", 1)
	if viaStore {
		b.R.Count("writes.store", 1)
	}
	if prior != "none" {
		b.R.Count("writes.overwrite", 1)
	}
	desc := map[string]interface{}{"backend": kind, "cfgTTL": cfgTTL.String(), "ctxTTL": ctxTTL.String(), "ctxClass": ctxClass, "jitter": jit, "t0": t0, "t1": t1, "strategy": int(strat), "prior": prior, "store": viaStore}
	fail := func(what, msg string) {
		b.R.Violate(b, idx, "C10:"+kind+":"+what, fmt.Sprintf("%s: %s %v", what, msg, desc), desc)
	}
	if err != nil {
		fail("write-error", err.Error())
		return
	}
	var E int64
	found := false
	be.Walk(func(k []byte, v interface{}, exp time.Time) error {
		if string(k) == string(key) {
			E, found = exp.UnixNano(), true
		}
		return nil
	})
	if !found {
		fail("walk-missing", "written entry not reported by Walk")
		return
	}
	desc["E"] = E
	// effective TTL
	T := ctxTTL
	if T == 0 {
		T = cfgTTL
		if cfgTTL == 0 {
			T = 5 * time.Minute
		}
	}
	J := jit
	if J == 0 {
		J = 0.1
	}
	if ctxTTL == 0 && cfgTTL == cache.UnlimitedTTL {
		b.R.Count("unlimited.checked", 1)
		if E != 0 {
			fail("unlimited-nonzero", fmt.Sprintf("UnlimitedTTL without ctx TTL stored expiry %d", E))
		}
		v, err := be.Read(bg, key)
		if err != nil || v != val {
			fail("unlimited-read", fmt.Sprintf("never-expiring entry read (%v,%v)", v, err))
		}
		if be.HasLoadStore() {
			if lv, ok := be.Load(key); !ok || lv != val {
				fail("unlimited-load", fmt.Sprintf("never-expiring entry Load (%v,%v)", lv, ok))
			}
		}
		b.R.Nontrivial(fmt.Sprintf("%s/unlimited/%s/%s/s%d/%s", kind, ctxClass, jitClass, strat, prior))
		return
	}
	absT := math.Abs(float64(T))
	eps := 2 + absT*math.Pow(2, -52)
	// exact integer differences; only the (small) jitter half-width is a float
	dLo := float64(E - t0 - int64(T)) // >= -halfwidth
	dHi := float64(E - t1 - int64(T)) // <= +halfwidth
	if J < 0 {
		if dLo < 0 || dHi > 0 {
			fail("bounds-exact", fmt.Sprintf("jitter disabled: E=%d not in [%d,%d]", E, t0+int64(T), t1+int64(T)))
		}
	} else {
		hw := absT*J/2 + eps
		if dLo < -hw {
			fail("bounds-low", fmt.Sprintf("E-t0-T=%.0f below -%.1f (T=%v J=%v)", dLo, hw, T, J))
		}
		if dHi > hw {
			fail("bounds-high", fmt.Sprintf("E-t1-T=%.0f above +%.1f (T=%v J=%v)", dHi, hw, T, J))
		}
	}
	b.R.Count("bounds.checked", 1)
	dec := int(math.Log10(absT + 1))
	b.R.Nontrivial(fmt.Sprintf("%s/%s/%s/%s/1e%d/s%d/%s", kind, cfgClass, ctxClass, jitClass, dec, strat, prior))
	if idx == 0 {
		b.R.Sample(desc)
	}
	// an entry that arrives through Dump/Restore in a fresh instance of the same configuration expires at the same instant
	if idx%8 == 0 {
		var buf bytes.Buffer
		if _, err := be.Dump(&buf); err == nil {
			be2 := newBackend(kind, mkCfg())
			if _, err := be2.Restore(&buf); err == nil {
				b.R.Count("restored.checked", 1)
				tb2 := time.Now().UnixNano()
				v2, err2 := be2.Read(bg, key)
				ta2 := time.Now().UnixNano()
				if E < tb2 && !errors.Is(err2, cache.ErrExpired) {
					fail("restored-read-after-expiry", fmt.Sprintf("restored entry with E=%d < now=%d reads (%v,%v)", E, tb2, v2, err2))
				}
				if E > ta2 && (err2 != nil || v2 != val) {
					fail("restored-read-before-expiry", fmt.Sprintf("restored entry with E=%d > now=%d reads (%v,%v)", E, ta2, v2, err2))
				}
			}
		}
	}
	// reads
	tb := time.Now().UnixNano()
	v, rerr := be.Read(bg, key)
	ta := time.Now().UnixNano()
	switch {
	case E > ta:
		b.R.Count("read.hit.checked", 1)
		if rerr != nil || v != val {
			fail("read-before-expiry", fmt.Sprintf("E=%d > now=%d but Read returned (%v,%v)", E, ta, v, rerr))
		}
	case E < tb:
		b.R.Count("read.expired.checked", 1)
		sv, at, ok := be.Expired(rerr)
		if !errors.Is(rerr, cache.ErrExpired) || !ok {
			fail("read-after-expiry", fmt.Sprintf("E=%d < now=%d but Read returned (%v,%v)", E, tb, v, rerr))
		} else {
			if sv != val {
				fail("stale-value", fmt.Sprintf("stale value %v want %v", sv, val))
			}
			if at.UnixNano() != E {
				fail("expiredat-mismatch", fmt.Sprintf("ExpiredAt=%d, Walk ExpireAt=%d", at.UnixNano(), E))
			}
		}
	default:
		b.R.Count("read.ambiguous.skipped", 1)
	}
}

// c10Dist checks that jitter is two-sided and spans the documented width.
func c10Dist(b *Batch, idx int, kind string, jit float64) {
	J := jit
	if J == 0 {
		J = 0.1
	}
	T := time.Hour
	be := newBackend(kind, cache.Config{TimeToLive: T, ExpirationJitter: jit})
	const n = 2000
	type w struct{ t0, t1 int64 }
	ws := make([]w, n)
	for i := 0; i < n; i++ {
		k := []byte(fmt.Sprintf("d%d", i))
		ws[i].t0 = time.Now().UnixNano()
		be.Write(bg, k, "x")
		ws[i].t1 = time.Now().UnixNano()
	}
	lower, upper, lowDecile, highDecile := 0, 0, 0, 0
	half := float64(T) * J / 2
	cnt := 0
	be.Walk(func(k []byte, v interface{}, exp time.Time) error {
		var i int
		fmt.Sscanf(string(k), "d%d", &i)
		cnt++
		mid := float64(ws[i].t0+ws[i].t1)/2 + float64(T)
		d := float64(exp.UnixNano()) - mid // within +-half (+ write latency)
		if d < 0 {
			lower++
		} else {
			upper++
		}
		if d < -0.8*half {
			lowDecile++
		}
		if d > 0.8*half {
			highDecile++
		}
		return nil
	})
	b.R.Eval()
	b.R.Count("dist.blocks", 1)
	b.R.Nontrivial(fmt.Sprintf("dist/%s/J=%v", kind, J))
	desc := map[string]interface{}{"backend": kind, "J": J, "n": cnt, "lower": lower, "upper": upper, "lowDecile": lowDecile, "highDecile": highDecile}
	if cnt != n || lower < n/4 || upper < n/4 || lowDecile == 0 || highDecile == 0 {
		b.R.Violate(b, idx, "C10:"+kind+":jitter-distribution", fmt.Sprintf("jitter not two-sided/full-width: %v", desc), desc)
	}
}

// c10ViaFailover: the entry is written by the Failover frontend on behalf of a caller whose context carries the TTL, and that
// context has a history: it was already used for a Get whose build failed (and for other keys). The effective TTL of the
// later write is still the one the caller put into the context.
func c10ViaFailover(b *Batch, idx int) {
	rng := rand.New(rand.NewSource(b.CaseSeed(idx)))
	p := foPairings[rng.Intn(3)]
	T := time.Hour + randDuration(rng)%(10*time.Hour)
	jit := []float64{-1, 0, 1.0}[rng.Intn(3)]
	be := newBackend(p[1], cache.Config{ExpirationJitter: jit})
	fut := []time.Duration{0, time.Second, -1}[rng.Intn(3)]
	// half of the cases: the key already holds an expired value, so the frontend re-stores it temporarily (with UpdateTTL)
	// before the synchronous build; the final store must still carry the caller's TTL
	stale := rng.Intn(2) == 0
	if stale {
		if err := be.Write(cache.WithTTL(bg, -time.Second-randDuration(rng)%time.Hour, false), []byte("ok"), "old"); err != nil {
			stale = false
		}
	}
	var get func(ctx context.Context, key string, fail bool) error
	if p[0] == "FailoverOf" {
		f := cache.NewFailoverOf[string](cache.FailoverConfigOf[string]{Backend: be.(ofAdapter).m, FailedUpdateTTL: fut, SyncUpdate: stale}.Use)
		get = func(ctx context.Context, key string, fail bool) error {
			_, err := f.Get(ctx, []byte(key), func(context.Context) (string, error) {
				if fail {
					return "", errors.New("source down")
				}
				return "v-" + key, nil
			})
			return err
		}
	} else {
		var rw cache.ReadWriter
		switch a := be.(type) {
		case smAdapter:
			rw = a.m
		case syAdapter:
			rw = a.m
		}
		f := cache.NewFailover(cache.FailoverConfig{Backend: rw, FailedUpdateTTL: fut, SyncUpdate: stale}.Use)
		get = func(ctx context.Context, key string, fail bool) error {
			_, err := f.Get(ctx, []byte(key), func(context.Context) (interface{}, error) {
				if fail {
					return nil, errors.New("source down")
				}
				return "v-" + key, nil
			})
			return err
		}
	}
	ctx := cache.WithTTL(bg, T, false)
	nFail := rng.Intn(3)
	for i := 0; i < nFail; i++ {
		_ = get(ctx, fmt.Sprintf("failing-%d", i), true)
	}
	t0 := time.Now().UnixNano()
	err := get(ctx, "ok", false)
	t1 := time.Now().UnixNano()
	b.R.Eval()
	b.R.Count("via_failover.writes", 1)
	if nFail > 0 {
		b.R.Count("via_failover.after_failed_build", 1)
	}
	if stale {
		b.R.Count("via_failover.over_stale_entry", 1)
	}
	desc := map[string]interface{}{"api": p[0], "backend": p[1], "T": T.String(), "jitter": jit, "failed_builds_before": nFail, "fut": fut.String(), "stale_before": stale}
	fail := func(what, msg string) {
		b.R.Violate(b, idx, "C10:"+p[0]+":via-failover:"+what, fmt.Sprintf("%s: %s %v", what, msg, desc), desc)
	}
	if err != nil {
		fail("get-error", err.Error())
		return
	}
	if got := cache.TTL(ctx); got != T {
		fail("ctx-ttl-altered", fmt.Sprintf("TTL in the caller's context changed from %v to %v", T, got))
	}
	var E int64
	found := false
	be.Walk(func(k []byte, _ interface{}, exp time.Time) error {
		if string(k) == "ok" {
			E, found = exp.UnixNano(), true
		}
		return nil
	})
	if !found {
		fail("walk-missing", "built entry not reported by Walk")
		return
	}
	J := jit
	if J == 0 {
		J = 0.1
	}
	hw := 0.0
	if J > 0 {
		hw = float64(T)*J/2 + 2 + float64(T)*math.Pow(2, -52)
	}
	if float64(E-t0-int64(T)) < -hw || float64(E-t1-int64(T)) > hw {
		fail("bounds", fmt.Sprintf("entry built with context TTL %v expires at t+%v, allowed deviation %v", T, time.Duration(E-t0), time.Duration(hw)))
	}
	b.R.Nontrivial(fmt.Sprintf("via-failover/%s/%s/jit=%v/fails=%d/fut=%v/stale=%v", p[0], p[1], jit, nFail, fut, stale))
}
