package main

import (
	"bytes"
	"context"
	"errors"
	"fmt"
	"io"
	"math/rand"
	"net/http"
	"net/http/httptest"
	"os"
	"path/filepath"
	"regexp"
	"sort"
	"strconv"
	"strings"
	"sync"
	"sync/atomic"
	"time"

	"github.com/bool64/cache"
)

// C16: the public API is free of data races. Generated concurrent client programs run under the Go race detector
// (children are the -race build, GORACE=halt_on_error=0 log_path=...); report blocks are counted from the logs.

type c16Env struct {
	kind   string
	be     Backend
	dump   []byte // a dump of a similar cache, for Restore
	fo     func(ctx context.Context, key []byte, ok bool) // Failover Get
	invFresh []*cache.Invalidator
	inv    *cache.Invalidator
	export http.Handler
	name   string
}

var c16Keys = func() [][]byte {
	var ks [][]byte
	for i := 0; i < 8; i++ {
		ks = append(ks, []byte(fmt.Sprintf("rk-%d", i)))
	}
	return ks
}()

func c16Key(r *rand.Rand) []byte { return c16Keys[r.Intn(len(c16Keys))] }

// Every op is a named top-level function so that it shows up in race report stacks.

func c16opRead(e *c16Env, r *rand.Rand, n int) {
	for i := 0; i < n; i++ {
		v, err := e.be.Read(bg, c16Key(r))
		if err != nil {
			if sv, at, ok := e.be.Expired(err); ok {
				_, _ = sv, at
			}
		}
		_ = v
	}
}
func c16opWrite(e *c16Env, r *rand.Rand, n int) {
	for i := 0; i < n; i++ {
		ctx := bg
		if i%3 == 0 {
			ctx = cache.WithTTL(bg, -time.Second, false)
		}
		var v interface{} = "v"
		if i%4 == 1 && e.be.AllowsNil() {
			v = c16SharedPtr // one pointer value written over and over under the same keys (a cached singleton)
		}
		_ = e.be.Write(ctx, c16Key(r), v)
	}
}

var c16SharedPtr = &GobVal{Name: "singleton", N: 1}
func c16opDelete(e *c16Env, r *rand.Rand, n int) {
	for i := 0; i < n; i++ {
		_ = e.be.Delete(bg, c16Key(r))
	}
}
func c16opLoad(e *c16Env, r *rand.Rand, n int) {
	if !e.be.HasLoadStore() {
		c16opRead(e, r, n)
		return
	}
	for i := 0; i < n; i++ {
		e.be.Load(c16Key(r))
	}
}
func c16opStore(e *c16Env, r *rand.Rand, n int) {
	if !e.be.HasLoadStore() {
		c16opWrite(e, r, n)
		return
	}
	for i := 0; i < n; i++ {
		e.be.Store(c16Key(r), "s")
	}
}
func c16opExpireAll(e *c16Env, r *rand.Rand, n int) {
	for i := 0; i < n/10+1; i++ {
		e.be.ExpireAll(bg)
	}
}
func c16opDeleteAll(e *c16Env, r *rand.Rand, n int) {
	for i := 0; i < n/10+1; i++ {
		e.be.DeleteAll(bg)
	}
}
func c16opLen(e *c16Env, r *rand.Rand, n int) {
	for i := 0; i < n; i++ {
		e.be.Len()
	}
}
func c16opWalk(e *c16Env, r *rand.Rand, n int) {
	for i := 0; i < n/10+1; i++ {
		_, _ = e.be.Walk(func(k []byte, v interface{}, exp time.Time) error {
			_, _, _ = len(k), v, exp.IsZero()
			return nil
		})
	}
}
func c16opDump(e *c16Env, r *rand.Rand, n int) {
	for i := 0; i < n/10+1; i++ {
		_, _ = e.be.Dump(io.Discard)
	}
}
func c16opRestore(e *c16Env, r *rand.Rand, n int) {
	for i := 0; i < n/10+1; i++ {
		_, _ = e.be.Restore(bytes.NewReader(e.dump))
	}
}
func c16opAddInvalidationLabels(e *c16Env, r *rand.Rand, n int) {
	for i := 0; i < n; i++ {
		e.be.Index().AddInvalidationLabels(c16Key(r), "L"+strconv.Itoa(r.Intn(3)))
	}
}
func c16opAddLabels(e *c16Env, r *rand.Rand, n int) {
	for i := 0; i < n; i++ {
		e.be.Index().AddLabels("name-"+strconv.Itoa(r.Intn(1000000)), c16Key(r), "L"+strconv.Itoa(r.Intn(3)))
	}
}
func c16opAddCache(e *c16Env, r *rand.Rand, n int) {
	for i := 0; i < n/10+1; i++ {
		e.be.Index().AddCache("name-"+strconv.Itoa(r.Intn(50)), e.be.(cache.Deleter))
	}
}
func c16opInvalidateByLabels(e *c16Env, r *rand.Rand, n int) {
	for i := 0; i < n/4+1; i++ {
		_, _ = e.be.Index().InvalidateByLabels(bg, "L"+strconv.Itoa(r.Intn(3)), "L"+strconv.Itoa(r.Intn(3)))
	}
}
func c16opGetHit(e *c16Env, r *rand.Rand, n int) {
	for i := 0; i < n; i++ {
		e.fo(bg, c16Key(r), true)
	}
}
func c16opGetFailing(e *c16Env, r *rand.Rand, n int) {
	for i := 0; i < n; i++ {
		e.fo(bg, c16Key(r), false)
	}
}
func c16opGetSkipRead(e *c16Env, r *rand.Rand, n int) {
	for i := 0; i < n; i++ {
		e.fo(cache.WithSkipRead(bg), c16Key(r), i%4 != 0)
	}
}
func c16opGetNewKeys(e *c16Env, r *rand.Rand, n int) {
	for i := 0; i < n; i++ {
		e.fo(cache.WithTTL(bg, time.Duration(r.Intn(3)-1)*time.Minute, false), []byte("miss-"+strconv.Itoa(r.Intn(64))), i%5 != 0)
	}
}
func c16opInvalidate(e *c16Env, r *rand.Rand, n int) {
	for i := 0; i < n; i++ {
		_ = e.inv.Invalidate(bg)
		// and the very first calls of an Invalidator left at its zero configuration (both goroutines walk the same list)
		_ = e.invFresh[i%len(e.invFresh)].Invalidate(bg)
	}
}
func c16opExportHTTP(e *c16Env, r *rand.Rand, n int) {
	for i := 0; i < n/10+1; i++ {
		req := httptest.NewRequest(http.MethodGet, "/?name="+e.name+"&typesHash="+strconv.FormatUint(cache.GobTypesHash(), 10), nil)
		rec := httptest.NewRecorder()
		e.export.ServeHTTP(rec, req)
	}
}
func c16opExportJSONL(e *c16Env, r *rand.Rand, n int) {
	t := &cache.HTTPTransfer{}
	t.AddCache(e.name, e.be.WDR())
	h := t.ExportJSONL()
	for i := 0; i < n/10+1; i++ {
		req := httptest.NewRequest(http.MethodGet, "/?name="+e.name, nil)
		rec := httptest.NewRecorder()
		h.ServeHTTP(rec, req)
	}
}

type c16FailingDeleter struct{}

var errC16Delete = errors.New("injected delete failure")

func (c16FailingDeleter) Delete(context.Context, []byte) error { return errC16Delete }

// c16opInvalidateFailing drives the put-back path of InvalidateByLabels (a deleter that fails) on cache name "failing".
func c16opInvalidateFailing(e *c16Env, r *rand.Rand, n int) {
	for i := 0; i < n/2+1; i++ {
		e.be.Index().AddLabels("failing", c16Key(r), "F"+strconv.Itoa(r.Intn(3)))
		_, _ = e.be.Index().InvalidateByLabels(bg, "F"+strconv.Itoa(r.Intn(3)), "F"+strconv.Itoa(r.Intn(3)))
	}
}
func c16opAddLabelsFailingName(e *c16Env, r *rand.Rand, n int) {
	for i := 0; i < n; i++ {
		e.be.Index().AddLabels("failing", c16Key(r), "F"+strconv.Itoa(r.Intn(3)))
	}
}

type c16OpDef struct {
	name string
	fn   func(e *c16Env, r *rand.Rand, n int)
}

var c16BackendOps = []c16OpDef{
	{"Read", c16opRead}, {"Write", c16opWrite}, {"Delete", c16opDelete}, {"Load", c16opLoad}, {"Store", c16opStore},
	{"ExpireAll", c16opExpireAll}, {"DeleteAll", c16opDeleteAll}, {"Len", c16opLen}, {"Walk", c16opWalk}, {"Dump", c16opDump},
	{"Restore", c16opRestore}, {"AddInvalidationLabels", c16opAddInvalidationLabels}, {"AddLabels", c16opAddLabels},
	{"AddCache", c16opAddCache}, {"InvalidateByLabels", c16opInvalidateByLabels}, {"ExportHTTP", c16opExportHTTP}, {"ExportJSONL", c16opExportJSONL},
	{"InvalidateFailing", c16opInvalidateFailing}, {"AddLabelsFailingName", c16opAddLabelsFailingName},
}

var c16FailoverOps = []c16OpDef{
	{"GetHit", c16opGetHit}, {"GetFailing", c16opGetFailing}, {"GetSkipRead", c16opGetSkipRead}, {"GetNewKeys", c16opGetNewKeys},
	{"ExpireAll", c16opExpireAll}, {"DeleteAll", c16opDeleteAll}, {"Walk", c16opWalk}, {"Write", c16opWrite}, {"Invalidate", c16opInvalidate},
}

var c16Strategies = []cache.EvictionStrategy{cache.EvictMostExpired, cache.EvictLeastRecentlyUsed, cache.EvictLeastFrequentlyUsed}

func c16NewEnv(kind string, strat int, failover string, rng *rand.Rand) *c16Env {
	cfg := cache.Config{
		Name:                     "race",
		DeleteExpiredJobInterval: time.Millisecond,
		DeleteExpiredAfter:       time.Millisecond,
		CountSoftLimit:           6,
		EvictFraction:            0.3,
		EvictionStrategy:         c16Strategies[strat],
		ItemsCountReportInterval: time.Millisecond,
		Stats:                    nopStats{},
	}
	if rng.Intn(2) == 0 {
		cfg.TimeToLive = cache.UnlimitedTTL
	}
	e := &c16Env{kind: kind, be: newBackend(kind, cfg), name: "race"}
	e.be.Index().AddCache("failing", c16FailingDeleter{})
	// a dump to restore from
	src := newBackend(kind, cache.Config{})
	for i, k := range c16Keys {
		src.Write(cache.WithTTL(bg, time.Duration(i-3)*time.Minute, false), k, "d")
	}
	var buf bytes.Buffer
	src.Dump(&buf)
	e.dump = buf.Bytes()
	t := &cache.HTTPTransfer{}
	t.AddCache(e.name, e.be.WDR())
	e.export = t.Export()
	e.inv = &cache.Invalidator{SkipInterval: time.Microsecond}
	if rng.Intn(2) == 0 {
		e.inv.SkipInterval = 0 // the zero value: the documented default is filled in lazily
	}
	e.inv.Callbacks = append(e.inv.Callbacks, e.be.ExpireAll, e.be.DeleteAll)
	for i := 0; i < 256; i++ {
		e.invFresh = append(e.invFresh, &cache.Invalidator{Callbacks: []func(context.Context){func(context.Context) {}}})
	}
	errFail := errors.New("build failed")
	faulty := rng.Intn(2) == 0 // user-supplied backend that fails now and then with an unexpected error
	switch failover {
	case "Failover":
		var rw cache.ReadWriter
		switch a := e.be.(type) {
		case smAdapter:
			rw = a.m
		case syAdapter:
			rw = a.m
		}
		if faulty {
			rw = &c16FaultyRW{rw: rw}
		}
		f := cache.NewFailover(cache.FailoverConfig{Backend: rw, MaxStaleness: time.Hour, FailedUpdateTTL: time.Millisecond, UpdateTTL: time.Millisecond, Stats: nopStats{}, ObserveMutability: true, SyncRead: rng.Intn(2) == 0}.Use)
		e.fo = func(ctx context.Context, key []byte, ok bool) {
			_, _ = f.Get(ctx, key, func(ctx context.Context) (interface{}, error) {
				if !ok {
					return nil, errFail
				}
				return "built", nil
			})
		}
	case "FailoverOf":
		var rwo cache.ReadWriterOf[string] = e.be.(ofAdapter).m
		if faulty {
			rwo = &c16FaultyRWOf{rw: rwo}
		}
		f := cache.NewFailoverOf[string](cache.FailoverConfigOf[string]{Backend: rwo, MaxStaleness: time.Hour, FailedUpdateTTL: time.Millisecond, UpdateTTL: time.Millisecond, Stats: nopStats{}, ObserveMutability: true, SyncRead: rng.Intn(2) == 0}.Use)
		e.fo = func(ctx context.Context, key []byte, ok bool) {
			_, _ = f.Get(ctx, key, func(ctx context.Context) (string, error) {
				if !ok {
					return "", errFail
				}
				return "built", nil
			})
		}
	}
	return e
}

type nopStats struct{}

func (nopStats) Add(context.Context, string, float64, ...string) {}
func (nopStats) Set(context.Context, string, float64, ...string) {}

type c16Program struct {
	Kind     string   `json:"backend"`
	Strategy int      `json:"strategy"`
	Failover string   `json:"failover,omitempty"`
	Ops      []string `json:"ops"`
	Seed     int64    `json:"seed"`
	Iters    int      `json:"iters"`
}

func c16Run(p c16Program) {
	rng := rand.New(rand.NewSource(p.Seed))
	e := c16NewEnv(p.Kind, p.Strategy, p.Failover, rng)
	defs := c16BackendOps
	if p.Failover != "" {
		defs = c16FailoverOps
	}
	var wg sync.WaitGroup
	start := make(chan struct{})
	for _, name := range p.Ops {
		for _, d := range defs {
			if d.name != name {
				continue
			}
			for g := 0; g < 2; g++ {
				wg.Add(1)
				r := rand.New(rand.NewSource(rng.Int63()))
				go func(d c16OpDef) {
					defer wg.Done()
					<-start
					d.fn(e, r, p.Iters)
				}(d)
			}
		}
	}
	close(start)
	wg.Wait()
	time.Sleep(3 * time.Millisecond) // let the janitor and the items reporter run against the final state
}

func c16Programs(tier string, seed int64) []c16Program {
	var ps []c16Program
	rng := rand.New(rand.NewSource(seed))
	reps := 1
	if tier == "thorough" {
		reps = 3
	}
	for rep := 0; rep < reps; rep++ {
		for _, kind := range backendKinds {
			for st := 0; st < 3; st++ {
				for i := range c16BackendOps {
					for j := i; j < len(c16BackendOps); j++ {
						ps = append(ps, c16Program{Kind: kind, Strategy: st, Ops: []string{c16BackendOps[i].name, c16BackendOps[j].name}, Seed: rng.Int63(), Iters: 300 + rng.Intn(700)})
					}
				}
			}
			fo := "Failover"
			if kind == "ShardedMapOf" {
				fo = "FailoverOf"
			}
			for i := range c16FailoverOps {
				for j := i; j < len(c16FailoverOps); j++ {
					ps = append(ps, c16Program{Kind: kind, Strategy: rng.Intn(3), Failover: fo, Ops: []string{c16FailoverOps[i].name, c16FailoverOps[j].name}, Seed: rng.Int63(), Iters: 300 + rng.Intn(700)})
				}
			}
		}
	}
	nk := 60
	if tier == "thorough" {
		nk = 1200
	}
	for i := 0; i < nk; i++ {
		kind := backendKinds[rng.Intn(3)]
		p := c16Program{Kind: kind, Strategy: rng.Intn(3), Seed: rng.Int63(), Iters: 500 + rng.Intn(2500)}
		defs := c16BackendOps
		if rng.Intn(3) == 0 {
			defs = c16FailoverOps
			p.Failover = "Failover"
			if kind == "ShardedMapOf" {
				p.Failover = "FailoverOf"
			}
		}
		k := 3 + rng.Intn(4)
		for _, ix := range rng.Perm(len(defs))[:k] {
			p.Ops = append(p.Ops, defs[ix].name)
		}
		ps = append(ps, p)
	}
	return ps
}

func init() {
	register(&Engine{
		ID:      "C16",
		Race:    true,
		Batches: func(tier string) int { return 32 },
		Run:     runC16,
		Rule: "generated concurrent client programs: every unordered pair (incl. self-pairs) of the public-operation catalogue on a shared instance - backends {ShardedMap,SyncMap,ShardedMapOf} x {MostExpired,LRU,LFU} with the janitor at 1ms, count limit and items reporter " +
			"(Read,Write,Delete,Load,Store,ExpireAll,DeleteAll,Len,Walk,Dump,Restore,AddInvalidationLabels,AddLabels(fresh names),AddCache,InvalidateByLabels,HTTP Export,ExportJSONL) and Failover/FailoverOf over them " +
			"(Get hit/failing/SkipRead/new keys + backend ExpireAll/DeleteAll/Walk/Write + Invalidator.Invalidate) - plus seeded k-subsets (k=3..6); each op looped by 2 goroutines; children run the -race build with halt_on_error=0 and " +
			"report blocks are counted from the race logs and de-duplicated by library frame pair; a child killed by a runtime fault is a violation; distinct_nontrivial = distinct (instance kind, op set) programs executed",
		Required:    []string{"programs", "op_pairs.backend", "op_pairs.failover"},
		Assumptions: []string{"non-detection claim: no report in the programs x repetitions executed; the race detector only sees accesses that were executed", "harness ops share nothing but the instance under test (a report without a library frame fails the check as broken)"},
		Timeout:     func(string) time.Duration { return 90 * time.Minute },
		Finalize: func(agg *Result, tier string) []string {
			if agg.Counters["race.reports.harness_only"] > 0 {
				return []string{"race report without a github.com/bool64/cache frame: the harness itself races"}
			}
			return nil
		},
	})
}

func runC16(b *Batch) {
	registerGobTypes()
	ps := c16Programs(b.Tier, b.Seed)
	for i, p := range ps {
		if i%b.NBatches != b.Index || b.Skip(i) {
			continue
		}
		// log the program before running it: a fatal runtime error kills the child
		fmt.Printf("PROGRAM %d %+v\n", i, p)
		c16Run(p)
		b.R.Eval()
		b.R.Count("programs", 1)
		ops := append([]string(nil), p.Ops...)
		sort.Strings(ops)
		if p.Failover != "" {
			b.R.Count("op_pairs.failover", 1)
		} else {
			b.R.Count("op_pairs.backend", 1)
		}
		b.R.Nontrivial(fmt.Sprintf("%s/%d/%s/%v", p.Kind, p.Strategy, p.Failover, ops))
		b.R.SetAdd("ops_exercised", p.Failover+":"+strings.Join(ops, "+"))
		if i == 0 {
			b.R.Sample(p)
		}
	}
}

var (
	reOpFrame  = regexp.MustCompile(`main\.(c16op\w+)`)
)

// scanRaceLogs parses the race detector logs of one child batch and adds a violation per distinct report.
func scanRaceLogs(id, scratch string, bi int, agg *Result) {
	files, _ := filepath.Glob(filepath.Join(scratch, fmt.Sprintf("race-b%d.*", bi)))
	for _, f := range files {
		data, err := os.ReadFile(f)
		if err != nil {
			continue
		}
		for _, blk := range strings.Split(string(data), "==================") {
			if !strings.Contains(blk, "WARNING: DATA RACE") {
				continue
			}
			agg.Counters["race.reports"]++
			// the two access stacks are the first two paragraphs
			parts := strings.Split(blk, "\n\n")
			var libs, ops []string
			for pi, p := range parts {
				if pi > 1 {
					break
				}
				lib := "-"
				for _, line := range strings.Split(p, "\n") {
					l := strings.TrimSpace(line)
					if strings.HasPrefix(l, "github.com/bool64/cache.") {
						l = strings.TrimPrefix(l, "github.com/bool64/cache.")
						if i := strings.LastIndexByte(l, '('); i > 0 {
							l = l[:i]
						}
						lib = l
						break
					}
				}
				libs = append(libs, lib)
				op := "-"
				if m := reOpFrame.FindStringSubmatch(p); m != nil {
					op = m[1]
				}
				ops = append(ops, op)
			}
			// creation stacks may name the op when the access happened in a library goroutine (janitor, background build)
			sort.Strings(libs)
			sort.Strings(ops)
			if !strings.Contains(blk, "github.com/bool64/cache") {
				agg.Counters["race.reports.harness_only"]++
				agg.Notes = append(agg.Notes, "race report without library frame: "+trunc(blk, 800))
				continue
			}
			sig := fmt.Sprintf("%s:race:%s", id, strings.Join(libs, "|"))
			dup := false
			for _, v := range agg.Violations {
				if v.Sig == sig {
					dup = true
				}
			}
			agg.NViol++
			if !dup {
				agg.Violations = append(agg.Violations, Violation{Sig: sig, Msg: fmt.Sprintf("data race between %s (ops %s)", strings.Join(libs, " and "), strings.Join(ops, ",")), Case: -1, Batch: bi,
					Replay: map[string]interface{}{"report": trunc(blk, 6000)}})
			}
		}
	}
}

var errC16Backend = errors.New("injected backend failure")

// c16FaultyRW fails roughly every 7th read and every 11th write with an error that is neither ErrNotFound nor ErrExpired.
type c16FaultyRW struct {
	rw cache.ReadWriter
	n  int64
}

func (f *c16FaultyRW) Read(ctx context.Context, k []byte) (interface{}, error) {
	if atomic.AddInt64(&f.n, 1)%7 == 0 {
		return nil, errC16Backend
	}
	return f.rw.Read(ctx, k)
}

func (f *c16FaultyRW) Write(ctx context.Context, k []byte, v interface{}) error {
	if atomic.AddInt64(&f.n, 1)%11 == 0 {
		return errC16Backend
	}
	return f.rw.Write(ctx, k, v)
}

type c16FaultyRWOf struct {
	rw cache.ReadWriterOf[string]
	n  int64
}

func (f *c16FaultyRWOf) Read(ctx context.Context, k []byte) (string, error) {
	if atomic.AddInt64(&f.n, 1)%7 == 0 {
		return "", errC16Backend
	}
	return f.rw.Read(ctx, k)
}

func (f *c16FaultyRWOf) Write(ctx context.Context, k []byte, v string) error {
	if atomic.AddInt64(&f.n, 1)%11 == 0 {
		return errC16Backend
	}
	return f.rw.Write(ctx, k, v)
}
