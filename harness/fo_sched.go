package main

import (
	"bytes"
	"context"
	"fmt"
	"math/rand"
	"runtime"
	"sort"
	"strconv"
	"strings"
	"sync"
	"sync/atomic"
	"time"
)

// Steered executor ("turnstile") for Failover runs.
//
// Worker goroutines and the background build goroutines spawned by the library stop at every yield point
// (harness-owned call-outs). In steered mode exactly one task is released at a time; after a release the
// scheduler waits until every task is stable: parked at a yield, finished, gone, or blocked inside the library.

type foCtxKey struct{}

type task struct {
	id      int // worker index, or 1000+getID for background build goroutines
	gid     int64
	gate    chan struct{}
	atYield int32
	done    int32
	point   string
	blocked bool
	gone    bool
	prio    int
	bgr     bool
	blockInfo string
}

type sched struct {
	steered  int32 // atomic: 1 = steered
	strategy string
	rng      *rand.Rand
	mu       sync.Mutex
	byGid    map[int64]*task
	tasks    []*task
	trace    []string
	dumps    int
	steps    int
	// free mode
	delayProb float64
	maxDelay  time.Duration
	seqNo     int64
	sigHash   uint64
	// pct
	changeAt map[int]bool
	last     *task
	lockedFn func() []string
	lastLocked string
	outcome  string // "", "deadlock", "inconclusive"
	dumpText string
}

func curGID() int64 {
	var buf [64]byte
	n := runtime.Stack(buf[:], false)
	// "goroutine 123 ["
	s := buf[10:n]
	i := bytes.IndexByte(s, ' ')
	if i < 0 {
		return -1
	}
	id, _ := strconv.ParseInt(string(s[:i]), 10, 64)
	return id
}

type gInfo struct {
	status string
	stack  string
}

func dumpGoroutines() map[int64]gInfo {
	buf := make([]byte, 1<<16)
	for {
		n := runtime.Stack(buf, true)
		if n < len(buf) {
			buf = buf[:n]
			break
		}
		buf = make([]byte, 2*len(buf))
	}
	out := map[int64]gInfo{}
	for _, blk := range strings.Split(string(buf), "\n\n") {
		if !strings.HasPrefix(blk, "goroutine ") {
			continue
		}
		rest := blk[10:]
		sp := strings.IndexByte(rest, ' ')
		if sp < 0 {
			continue
		}
		id, err := strconv.ParseInt(rest[:sp], 10, 64)
		if err != nil {
			continue
		}
		lb := strings.IndexByte(rest, '[')
		rb := strings.IndexByte(rest, ']')
		if lb < 0 || rb < lb {
			continue
		}
		st := rest[lb+1 : rb]
		if c := strings.IndexByte(st, ','); c >= 0 {
			st = st[:c]
		}
		out[id] = gInfo{status: st, stack: blk}
	}
	return out
}

func waitingStatus(st string) bool {
	switch st {
	case "running", "runnable", "syscall", "sleep":
		return false // a sleeping goroutine (slow builder) will continue on its own: not blocked
	}
	return true
}

func newSched(steered bool, strategy string, rng *rand.Rand) *sched {
	s := &sched{ strategy: strategy, rng: rng, byGid: map[int64]*task{}, changeAt: map[int]bool{}}
	if steered {
		s.steered = 1
	}
	if strategy == "pct" {
		d := 1 + rng.Intn(3)
		for i := 0; i < d; i++ {
			s.changeAt[rng.Intn(60)] = true
		}
	}
	s.delayProb = 0.1 + rng.Float64()*0.5
	s.maxDelay = time.Duration(1+rng.Intn(200)) * time.Microsecond
	return s
}

// spawn starts a worker task running fn under the scheduler.
func (s *sched) spawn(id int, fn func()) {
	t := &task{id: id, gate: make(chan struct{}, 1), prio: s.rng.Intn(1 << 20)}
	ready := make(chan struct{})
	s.mu.Lock()
	s.tasks = append(s.tasks, t)
	s.mu.Unlock()
	go func() {
		t.gid = curGID()
		s.mu.Lock()
		s.byGid[t.gid] = t
		s.mu.Unlock()
		close(ready)
		s.yield(bg, "start")
		fn()
		atomic.StoreInt32(&t.done, 1)
	}()
	<-ready
}

// yield is called at every harness-owned call-out.
func (s *sched) yield(ctx context.Context, point string) {
	if atomic.LoadInt32(&s.steered) == 0 {
		n := atomic.AddInt64(&s.seqNo, 1)
		_ = n
		if s.delayProb > 0 {
			// cheap thread-local-free randomness: hash of the sequence number
			h := mix64(uint64(n) * 0x9E3779B97F4A7C15)
			if float64(h%1000)/1000 < s.delayProb {
				if h&1024 == 0 {
					runtime.Gosched()
				} else {
					time.Sleep(time.Duration(h>>20) % (s.maxDelay + 1))
				}
			}
		}
		return
	}
	gid := curGID()
	s.mu.Lock()
	t := s.byGid[gid]
	if t == nil {
		// a goroutine spawned by the library: background build
		getID, _ := ctx.Value(foCtxKey{}).(int)
		t = &task{id: 1000 + getID, gid: gid, gate: make(chan struct{}, 1), prio: int(mix64(uint64(getID)+uint64(len(s.tasks))*7919) % (1 << 20)), bgr: true}
		s.byGid[gid] = t
		s.tasks = append(s.tasks, t)
	}
	s.mu.Unlock()
	t.point = point
	atomic.StoreInt32(&t.atYield, 1)
	<-t.gate
}

func (s *sched) snapshotTasks() []*task {
	s.mu.Lock()
	ts := append([]*task(nil), s.tasks...)
	s.mu.Unlock()
	return ts
}

// settle waits until every task is stable. Returns false on watchdog.
func (s *sched) settle(forceDump bool) bool {
	deadline := time.Now().Add(20 * time.Second)
	spins := 0
	for {
		unstable := 0
		for _, t := range s.snapshotTasks() {
			if atomic.LoadInt32(&t.atYield) == 1 {
				t.blocked = false
				continue
			}
			if atomic.LoadInt32(&t.done) == 1 || t.gone {
				t.blocked = false
				continue
			}
			if t.blocked {
				continue
			}
			unstable++
		}
		if unstable == 0 && !forceDump {
			return true
		}
		if spins < 400 && !forceDump {
			spins++
			runtime.Gosched()
			continue
		}
		forceDump = false
		s.dumps++
		d := dumpGoroutines()
		running := 0
		for _, t := range s.snapshotTasks() {
			if atomic.LoadInt32(&t.atYield) == 1 || atomic.LoadInt32(&t.done) == 1 || t.gone {
				t.blocked = false
				continue
			}
			g, ok := d[t.gid]
			switch {
			case !ok:
				t.gone = true
				t.blocked = false
			case waitingStatus(g.status) && strings.Contains(g.stack, "main.(*sched).yield"):
				// parked on its gate: either the at-yield flag is set (re-read below) or it was just released and
				// has not been scheduled yet - in both cases it is not blocked inside the library
				t.blocked = false
				if atomic.LoadInt32(&t.atYield) == 0 {
					running++
				}
			case waitingStatus(g.status):
				t.blocked = true
				t.blockInfo = g.status + "\n" + g.stack
			default:
				t.blocked = false
				running++
			}
		}
		if running == 0 {
			// re-evaluate with fresh flags
			spins = 400
			allStable := true
			for _, t := range s.snapshotTasks() {
				if atomic.LoadInt32(&t.atYield) == 1 || atomic.LoadInt32(&t.done) == 1 || t.gone || t.blocked {
					continue
				}
				allStable = false
			}
			if allStable {
				return true
			}
		}
		if time.Now().After(deadline) {
			return false
		}
		time.Sleep(20 * time.Microsecond)
	}
}

func (s *sched) lockedSig() string {
	if s.lockedFn == nil {
		return ""
	}
	return strings.Join(s.lockedFn(), "|")
}

// run drives all tasks to completion. workersDone reports whether all worker scripts have finished.
func (s *sched) run() {
	for {
		force := false
		if ls := s.lockedSig(); ls != s.lastLocked {
			s.lastLocked = ls
			// a lock was taken or released: blocked waiters may have been woken, background builds may have started
			for _, t := range s.snapshotTasks() {
				if t.blocked {
					force = true
				}
			}
		}
		if !s.settle(force) {
			s.outcome = "inconclusive"
			return
		}
		var runnable []*task
		live := 0
		blocked := 0
		for _, t := range s.snapshotTasks() {
			if atomic.LoadInt32(&t.atYield) == 1 {
				runnable = append(runnable, t)
				live++
			} else if t.blocked {
				blocked++
				live++
			}
		}
		if len(runnable) == 0 {
			if blocked == 0 {
				// all done or gone; a background build may still be on its way to its first yield
				if s.lockedFn != nil && len(s.lockedFn()) > 0 {
					arrived := false
					for i := 0; i < 200 && !arrived; i++ {
						time.Sleep(100 * time.Microsecond)
						for _, t := range s.snapshotTasks() {
							if atomic.LoadInt32(&t.atYield) == 1 {
								arrived = true
							}
						}
						if len(s.lockedFn()) == 0 {
							break
						}
					}
					if arrived {
						continue
					}
				}
				return
			}
			// nobody can run but someone is blocked inside the library: confirm, then it is a logical deadlock
			confirmed := true
			for i := 0; i < 3; i++ {
				time.Sleep(2 * time.Millisecond)
				if !s.settle(true) {
					s.outcome = "inconclusive"
					return
				}
				for _, t := range s.snapshotTasks() {
					if atomic.LoadInt32(&t.atYield) == 1 {
						confirmed = false
					}
				}
				stillBlocked := false
				for _, t := range s.snapshotTasks() {
					if t.blocked {
						stillBlocked = true
					}
				}
				if !stillBlocked {
					confirmed = false
				}
			}
			if confirmed {
				s.outcome = "deadlock"
				d := dumpGoroutines()
				var sb strings.Builder
				for _, t := range s.snapshotTasks() {
					if t.blocked {
						sb.WriteString(fmt.Sprintf("task %d blocked (classified on: %s)\nnow:\n%s\n\n", t.id, t.blockInfo, d[t.gid].stack))
					}
				}
				s.dumpText = sb.String()
				return
			}
			continue
		}
		sort.Slice(runnable, func(i, j int) bool { return runnable[i].id < runnable[j].id })
		var pick *task
		switch s.strategy {
		case "pct":
			if s.changeAt[s.steps] && s.last != nil {
				s.last.prio = -s.steps - 1
			}
			for _, t := range runnable {
				if pick == nil || t.prio > pick.prio {
					pick = t
				}
			}
		case "rtb":
			for _, t := range runnable {
				if t == s.last {
					pick = t
				}
			}
			if pick == nil || s.rng.Intn(12) == 0 {
				pick = runnable[s.rng.Intn(len(runnable))]
			}
		default:
			pick = runnable[s.rng.Intn(len(runnable))]
		}
		s.steps++
		s.last = pick
		s.trace = append(s.trace, fmt.Sprintf("%d@%s", pick.id, pick.point))
		s.sigHash = (s.sigHash ^ hashStr(fmt.Sprintf("%d@%s", pick.id, pick.point))) * 1099511628211
		atomic.StoreInt32(&pick.atYield, 0)
		pick.gate <- struct{}{}
		if s.steps > 5000 {
			s.outcome = "inconclusive"
			return
		}
	}
}

// abandon releases every parked task so that goroutines do not leak after an aborted run.
func (s *sched) abandon() {
	atomic.StoreInt32(&s.steered, 0)
	for _, t := range s.snapshotTasks() {
		if atomic.LoadInt32(&t.atYield) == 1 {
			atomic.StoreInt32(&t.atYield, 0)
			select {
			case t.gate <- struct{}{}:
			default:
			}
		}
	}
}
