// Package model (dupa) holds a cached value type whose short name "model.Item" also exists in package dupb/model.
package model

// Item is a cached value.
type Item struct {
	A int
}
