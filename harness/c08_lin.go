package main

import (
	"bytes"
	"context"
	"fmt"
	"math/rand"
	"runtime"
	"sort"
	"strings"
	"sync"
	"sync/atomic"
	"time"

	"github.com/anishathalye/porcupine"
	"github.com/bool64/cache"
	"github.com/cespare/xxhash/v2"
)

// C08: per-key linearizability of the backends under concurrent use (porcupine over recorded histories).

type linState struct {
	Present bool
	Tok     string
	Expired bool
	Long    bool // expired longer than DeleteExpiredAfter ago (only in the cleanup variant)
}

type linIn struct {
	Kind    string // write read delete expireall deleteall evict partner walksaw
	Tok     string
	Expired bool
}

type linOut struct {
	Class string // ok expired notfound  (read) ; ok notfound (delete)
	Tok   string
}

type linEv struct {
	Client int     `json:"c"`
	Key    int     `json:"k"` // -1: batch op
	In     linIn   `json:"in"`
	Out    linOut  `json:"out"`
	Call   int64   `json:"call"`
	Ret    int64   `json:"ret"`
	Seen   []wSeen `json:"seen,omitempty"`
}

type wSeen struct {
	Key     int    `json:"k"`
	Tok     string `json:"tok"`
	Expired bool   `json:"exp"`
	N       int    `json:"n"` // how many times reported
}

var linModel = (&porcupine.NondeterministicModel{
	Init: func() []interface{} { return []interface{}{linState{}} },
	Step: func(st, in, out interface{}) []interface{} {
		s := st.(linState)
		i := in.(linIn)
		o := out.(linOut)
		switch i.Kind {
		case "write":
			return []interface{}{linState{true, i.Tok, i.Expired, i.Expired}}
		case "cleanup":
			// the janitor's DeleteExpired pass visits the key at one instant: long-expired entries go, everything else stays
			if s.Present && s.Long {
				return []interface{}{linState{}}
			}
			return []interface{}{s}
		case "read", "walksaw":
			switch {
			case !s.Present:
				if o.Class == "notfound" {
					return []interface{}{s}
				}
			case s.Expired:
				if o.Class == "expired" && o.Tok == s.Tok {
					return []interface{}{s}
				}
			default:
				if o.Class == "ok" && o.Tok == s.Tok {
					return []interface{}{s}
				}
			}
			return nil
		case "delete":
			if s.Present && o.Class == "ok" {
				return []interface{}{linState{}}
			}
			if !s.Present && o.Class == "notfound" {
				return []interface{}{s}
			}
			return nil
		case "expireall":
			if s.Present {
				return []interface{}{linState{true, s.Tok, true, false}}
			}
			return []interface{}{s}
		case "deleteall":
			return []interface{}{linState{}}
		case "evict", "partner":
			if s.Present {
				return []interface{}{s, linState{}}
			}
			return []interface{}{s}
		}
		return nil
	},
	DescribeOperation: func(in, out interface{}) string { return fmt.Sprintf("%+v -> %+v", in, out) },
}).ToModel()

// janitor call-out recorder for the eviction variants
type linJanitor struct {
	calls   int64 // number of janitor call-outs so far (atomic)
	cleanup bool
	clock   *int64
	mu      sync.Mutex
	last    int64
	evs     []linEv
}

func (j *linJanitor) mark() int64 {
	defer atomic.AddInt64(&j.calls, 1)
	t := atomic.AddInt64(j.clock, 1)
	j.mu.Lock()
	prev := j.last
	j.last = t
	j.mu.Unlock()
	return prev
}

func (j *linJanitor) Add(_ context.Context, name string, inc float64, _ ...string) {
	switch name {
	case cache.MetricEvict:
		defer atomic.AddInt64(&j.calls, 1)
		t := atomic.AddInt64(j.clock, 1)
		j.mu.Lock()
		prev := j.last
		j.last = t
		if inc > 0 {
			j.evs = append(j.evs, linEv{Client: -1, Key: -1, In: linIn{Kind: "evict"}, Call: prev, Ret: t})
		}
		j.mu.Unlock()
	case cache.MetricEvictionElapsedSeconds:
		j.mark()
	}
}
func (j *linJanitor) Set(context.Context, string, float64, ...string) {}
func (j *linJanitor) evictionNeeded() bool {
	defer atomic.AddInt64(&j.calls, 1)
	t := atomic.AddInt64(j.clock, 1)
	j.mu.Lock()
	prev := j.last
	j.last = t
	if j.cleanup {
		// this cycle's DeleteExpired pass ran between the previous call-out and this one
		j.evs = append(j.evs, linEv{Client: -1, Key: -1, In: linIn{Kind: "cleanup"}, Call: prev, Ret: t})
	}
	j.mu.Unlock()
	return false
}

func init() {
	register(&Engine{
		ID:      "C08",
		Batches: func(string) int { return 16 },
		Run:     runC08,
		Rule: "many short histories: 2..16 client goroutines x 10..40 ops (per-key partitions kept below ~120 ops) over 3..6 keys (two of them an xxhash64 collision pair on the sharded backends), op mix Read/Write(+1h|-1h)/Delete/ExpireAll/DeleteAll/Walk, " +
			"with and without LRU/LFU, a third of the histories with the real janitor at 1ms and a count limit (evictions recorded at its cache_evict call-out); call/return stamped from one atomic logical clock at the client boundary with seeded delays; " +
			"porcupine NondeterministicModel per key (batch ops, evictions and partner writes inserted into every affected key's partition) + walk monitor (reported tokens were written under the key; keys stable during the walk reported exactly once); " +
			"distinct_nontrivial = distinct histories (hash of the per-key outcome patterns) containing at least one pair of real-time-concurrent conflicting operations on one key",
		Required:    []string{"histories", "partitions.ok", "histories.concurrent_conflict", "ops.read", "ops.write", "ops.delete", "ops.expireall", "ops.deleteall", "ops.walk", "walk.stable_keys.checked", "bulkwalk.cases", "evictions.recorded", "cleanup_cycles.recorded", "kind.ShardedMap", "kind.SyncMap", "kind.ShardedMapOf", "writes.equal_values_on_colliding_pair", "histories.cleanup_with_crowded_shard", "histories.unlimited_default_ttl"},
		Assumptions: []string{"a batch operation is modelled as acting on each key at one instant within its call; an eviction cycle as {unchanged, removed} within [previous janitor call-out, cache_evict call-out]", "checker timeout (30s per key partition) = inconclusive"},
		Timeout:     func(string) time.Duration { return 45 * time.Minute },
		ChildEnv:    []string{"GOMAXPROCS=8"},
	})
}

var c08BallastKeys = map[uint64][][]byte{}

// c08Ballast returns (and memoises) 800 filler keys that live in the given shard.
func c08Ballast(shard uint64) [][]byte {
	if ks, ok := c08BallastKeys[shard]; ok {
		return ks
	}
	var ks [][]byte
	for i := 0; len(ks) < 800; i++ {
		k := []byte(fmt.Sprintf("ballast-%d", i))
		if xxhash.Sum64(k)%128 == shard {
			ks = append(ks, k)
		}
	}
	c08BallastKeys[shard] = ks
	return ks
}

func runC08(b *Batch) {
	n := b.Pick(12000, 640000) / b.NBatches
	for i := 0; i < n; i++ {
		if b.Skip(i) {
			continue
		}
		c08Case(b, i)
		collectGarbage(i)
	}
	nb := b.Pick(16, 320) / b.NBatches
	if nb == 0 {
		nb = 1
	}
	for i := 0; i < nb; i++ {
		if !b.Skip(n + i) {
			c08BulkWalk(b, n+i)
		}
	}
}

func c08Case(b *Batch, idx int) {
	rng := rand.New(rand.NewSource(b.CaseSeed(idx)))
	kind := backendKinds[rng.Intn(3)]
	nKeys := 3 + rng.Intn(4)
	var keys [][]byte
	collide := kind != "SyncMap" && rng.Intn(2) == 0
	if collide {
		keys = collidingKeys(rng, 2)
	}
	for len(keys) < nKeys {
		keys = append(keys, []byte(fmt.Sprintf("lin-%d", len(keys))))
	}
	pairOnly := collide && rng.Intn(2) == 0
	if pairOnly { // only the two colliding keys: every operation contends for one hash slot
		nKeys = 2
		keys = keys[:2]
	}
	clients := 2 + rng.Intn(15)
	opsPer := 10 + rng.Intn(31)
	for clients*opsPer > 100*nKeys/2 { // keep per-key partitions small (batch ops land in every partition)
		if opsPer > 10 {
			opsPer--
		} else {
			clients--
		}
	}
	strat := c16Strategies[rng.Intn(3)]
	evict := rng.Intn(3) == 0
	// op-mix profile: thresholds for read, write, delete, expireall, deleteall (rest: walk); share of expired writes
	prof := [][6]int{{35, 65, 78, 83, 86, 33}, {45, 65, 70, 90, 92, 80}, {30, 55, 85, 88, 95, 33}, {25, 50, 60, 64, 67, 33}}[rng.Intn(4)]
	var clock int64
	jan := &linJanitor{clock: &clock}
	cfg := cache.Config{EvictionStrategy: strat, DeleteExpiredAfter: 100 * time.Hour, ExpirationJitter: -1}
	// a quarter of the histories run on an UnlimitedTTL cache whose fresh writes carry no context TTL (never-expiring entries);
	// in half of those no write carries a TTL at all, so ExpireAll is the only source of expiry ("no expiration was ever set")
	unl := rng.Intn(4) == 0
	neverOnly := unl && rng.Intn(2) == 0
	if unl {
		cfg.TimeToLive = cache.UnlimitedTTL
		b.R.Count("histories.unlimited_default_ttl", 1)
	}
	if pairOnly {
		prof = [6]int{25, 60, 92, 94, 96, 20} // delete-heavy
		b.R.Count("histories.colliding_pair_only", 1)
	}
	cleanup := !evict && rng.Intn(2) == 0
	if cleanup {
		// rewrite-heavy mix: long-expired versions are constantly replaced while the janitor scans
		prof = [6]int{30, 80, 85, 88, 89, 50}
		// the real janitor deletes entries expired more than 30min ago (writes with -1h), never ExpireAll'd or fresh ones
		cfg.DeleteExpiredJobInterval = time.Millisecond
		cfg.DeleteExpiredAfter = 30 * time.Minute
		cfg.Stats = jan
		cfg.EvictionNeeded = jan.evictionNeeded
		jan.cleanup = true
	}
	if evict {
		cfg.DeleteExpiredJobInterval = time.Millisecond
		cfg.CountSoftLimit = uint64(1 + rng.Intn(nKeys))
		cfg.EvictFraction = []float64{0.1, 0.5, 1}[rng.Intn(3)]
		cfg.Stats = jan
		cfg.EvictionNeeded = jan.evictionNeeded
	}
	be := newBackend(kind, cfg)
	if cleanup && kind != "SyncMap" && rng.Intn(2) == 0 {
		// recently expired fillers in the shard of key 0 make every scan of that shard long (they are never deletable
		// themselves): whatever the cleanup pass does between looking at an entry and removing it has time to go wrong
		for _, k := range c08Ballast(xxhash.Sum64(keys[0]) % 128) {
			_ = be.Write(cache.WithTTL(bg, -time.Second, false), k, "ballast")
		}
		b.R.Count("histories.cleanup_with_crowded_shard", 1)
	}
	logs := make([][]linEv, clients)
	seeds := make([]int64, clients)
	for c := range seeds {
		seeds[c] = rng.Int63()
	}
	var wg sync.WaitGroup
	start := make(chan struct{})
	var tokN, equalVals int64
	for c := 0; c < clients; c++ {
		wg.Add(1)
		go func(c int) {
			defer wg.Done()
			r := rand.New(rand.NewSource(seeds[c]))
			<-start
			pause := func() {
				switch r.Intn(6) {
				case 0:
					runtime.Gosched()
				case 1:
					time.Sleep(time.Duration(r.Intn(30)) * time.Microsecond)
				}
			}
			for i := 0; i < opsPer; i++ {
				ev := linEv{Client: c}
				ki := r.Intn(nKeys)
				key := clone(keys[ki])
				p := r.Intn(100)
				pause()
				ev.Call = atomic.AddInt64(&clock, 1)
				pause()
				switch {
				case p < prof[0]:
					ev.Key, ev.In = ki, linIn{Kind: "read"}
					v, err := be.Read(bg, key)
					switch errClass(err) {
					case "ok":
						ev.Out = linOut{"ok", fmt.Sprint(v)}
					case "notfound":
						ev.Out = linOut{Class: "notfound"}
					case "expired":
						sv, _, _ := be.Expired(err)
						ev.Out = linOut{"expired", fmt.Sprint(sv)}
					default:
						ev.Out = linOut{Class: "error:" + err.Error()}
					}
				case p < prof[1]:
					tok := fmt.Sprintf("k%d/w/%d", ki, atomic.AddInt64(&tokN, 1))
					if collide && ki < 2 && r.Intn(4) == 0 {
						tok = fmt.Sprintf("e/%d", r.Intn(2)) // equal values under the two colliding keys
						atomic.AddInt64(&equalVals, 1)
					}
					exp := r.Intn(100) < prof[5] && !neverOnly
					ctx := cache.WithTTL(bg, time.Hour, false)
					if unl {
						ctx = bg
					}
					if exp {
						ctx = cache.WithTTL(bg, -time.Hour, false)
					}
					ev.Key, ev.In = ki, linIn{Kind: "write", Tok: tok, Expired: exp}
					if err := be.Write(ctx, key, tok); err != nil {
						ev.Out = linOut{Class: "error:" + err.Error()}
					}
				case p < prof[2]:
					ev.Key, ev.In = ki, linIn{Kind: "delete"}
					ev.Out = linOut{Class: errClass(be.Delete(bg, key))}
				case p < prof[3]:
					ev.Key, ev.In = -1, linIn{Kind: "expireall"}
					be.ExpireAll(bg)
				case p < prof[4]:
					ev.Key, ev.In = -1, linIn{Kind: "deleteall"}
					be.DeleteAll(bg)
				default:
					ev.Key, ev.In = -1, linIn{Kind: "walk"}
					seen := map[string]*wSeen{}
					be.Walk(func(k []byte, v interface{}, exp time.Time) error {
						if bytes.HasPrefix(k, []byte("ballast-")) {
							return nil // filler entries of the cleanup variant, not part of the history
						}
						kk := -1
						for i2, kb := range keys {
							if string(kb) == string(k) {
								kk = i2
							}
						}
						s := seen[string(k)]
						if s == nil {
							s = &wSeen{Key: kk, Tok: fmt.Sprint(v), Expired: exp.UnixNano() != 0 && exp.Before(time.Now())}
							seen[string(k)] = s
						}
						s.N++
						if r.Intn(3) == 0 {
							runtime.Gosched()
						}
						return nil
					})
					for _, s := range seen {
						ev.Seen = append(ev.Seen, *s)
					}
				}
				for bi := range key {
					key[bi] ^= 0x3c // the caller reuses its key buffer: nothing stored may alias it
				}
				pause()
				ev.Ret = atomic.AddInt64(&clock, 1)
				logs[c] = append(logs[c], ev)
			}
		}(c)
	}
	close(start)
	wg.Wait()
	if evict || cleanup {
		// A cleanup/eviction pass that ran (even partly) while clients were active reports itself only at its call-out, which
		// follows the pass in the janitor goroutine: wait for two further call-outs (the first may precede an in-progress pass).
		startCalls := atomic.LoadInt64(&jan.calls)
		deadline := time.Now().Add(30 * time.Second)
		for atomic.LoadInt64(&jan.calls) < startCalls+2 {
			if time.Now().After(deadline) {
				b.R.Inconcl("C08: janitor produced no call-out within 30s after the clients finished")
				return
			}
			time.Sleep(200 * time.Microsecond)
		}
	}
	runtime.KeepAlive(be) // the finalizer of the cache stops its janitor: keep the instance reachable until here
	jan.mu.Lock()
	evictions := append([]linEv(nil), jan.evs...)
	jan.mu.Unlock()
	endClock := atomic.AddInt64(&clock, 1)

	b.R.Eval()
	b.R.Count("histories", 1)
	b.R.Count("kind."+kind, 1)
	if cleanup {
		b.R.Count("cleanup_cycles.recorded", int64(len(evictions)))
	} else {
		b.R.Count("evictions.recorded", int64(len(evictions)))
	}
	var all []linEv
	for _, l := range logs {
		all = append(all, l...)
	}
	for _, e := range evictions {
		if e.Call <= endClock {
			all = append(all, e)
		}
	}
	sort.Slice(all, func(i, j int) bool { return all[i].Call < all[j].Call })
	desc := fmt.Sprintf("%s/keys=%d/collide=%v/clients=%d/ops=%d/strategy=%d/evict=%v/cleanup=%v", kind, nKeys, collide, clients, opsPer, strat, evict, cleanup)
	b.R.Count("writes.equal_values_on_colliding_pair", atomic.LoadInt64(&equalVals))
	witness := func(k int, part []porcupine.Operation) map[string]interface{} {
		var ops []string
		for _, o := range part {
			ops = append(ops, fmt.Sprintf("[%d,%d] c%d %+v -> %+v", o.Call, o.Return, o.ClientId, o.Input, o.Output))
		}
		return map[string]interface{}{"history": desc, "key": k, "partition": ops}
	}
	// per-key partitions
	patterns := uint64(1469598103934665603)
	conflict := false
	for k := 0; k < nKeys; k++ {
		var part []porcupine.Operation
		add := func(e linEv, in linIn, out linOut) {
			cid := e.Client
			if cid < 0 {
				cid = clients
			}
			part = append(part, porcupine.Operation{ClientId: cid, Input: in, Output: out, Call: e.Call, Return: e.Ret})
		}
		for _, e := range all {
			switch {
			case e.Key == k:
				add(e, e.In, e.Out)
				b.R.Count("ops."+e.In.Kind, 1)
				patterns = (patterns ^ hashStr(fmt.Sprintf("%d/%s/%s", k, e.In.Kind, e.Out.Class))) * 1099511628211
			case e.Key >= 0 && collide && k < 2 && e.Key < 2 && e.In.Kind == "write":
				add(e, linIn{Kind: "partner"}, linOut{})
			case e.Key == -1 && e.In.Kind == "walk":
				for _, s := range e.Seen {
					if s.Key == k {
						cl := "ok"
						if s.Expired {
							cl = "expired"
						}
						add(e, linIn{Kind: "walksaw"}, linOut{cl, s.Tok})
					}
				}
			case e.Key == -1:
				add(e, e.In, linOut{})
				if k == 0 {
					b.R.Count("ops."+e.In.Kind, 1)
				}
			}
		}
		// concurrent conflicting ops on this key?
		for i := 0; i < len(part) && !conflict; i++ {
			for j := i + 1; j < len(part); j++ {
				if part[j].Call > part[i].Return {
					break
				}
				ki, kj := part[i].Input.(linIn).Kind, part[j].Input.(linIn).Kind
				if ki != "read" || kj != "read" {
					if ki != "walksaw" && kj != "walksaw" {
						conflict = true
						break
					}
				}
			}
		}
		res, info := porcupine.CheckOperationsVerbose(linModel, part, 30*time.Second)
		switch res {
		case porcupine.Ok:
			b.R.Count("partitions.ok", 1)
		case porcupine.Unknown:
			b.R.Inconcl(fmt.Sprintf("C08 porcupine timeout on a partition of %d ops", len(part)))
		case porcupine.Illegal:
			longest := 0
			for _, pl := range info.PartialLinearizations() {
				for _, l := range pl {
					if len(l) > longest {
						longest = len(l)
					}
				}
			}
			w := witness(k, part)
			w["longest_partial_linearization"] = longest
			b.R.Violate(b, idx, "C08:"+kind+":not-linearizable", fmt.Sprintf("key %d: history of %d ops is not linearizable (longest partial linearization %d) [%s]", k, len(part), longest, desc), w)
		}
	}
	// walk monitor
	for _, wv := range all {
		if wv.In.Kind != "walk" {
			continue
		}
		b.R.Count("ops.walk", 1)
		seenByKey := map[int]wSeen{}
		for _, s := range wv.Seen {
			if s.Key < 0 || (tokKey(s.Tok) != s.Key && !strings.HasPrefix(s.Tok, "e/")) {
				b.R.Violate(b, idx, "C08:"+kind+":walk-foreign-entry", fmt.Sprintf("Walk reported key %d with value %q that was never stored under it [%s]", s.Key, s.Tok, desc), nil)
			}
			seenByKey[s.Key] = s
		}
		for k := 0; k < nKeys; k++ {
			// presence-mutating ops on k (incl. batch, eviction, partner writes)
			var lastWrite *linEv
			stable := true
			var maxOtherRet int64 = -1
			for i := range all {
				e := &all[i]
				mut := false
				switch {
				case e.Key == k && (e.In.Kind == "write" || e.In.Kind == "delete"):
					mut = true
				case e.Key == -1 && (e.In.Kind == "deleteall" || e.In.Kind == "evict" || e.In.Kind == "expireall" || e.In.Kind == "cleanup"):
					mut = true
				case collide && k < 2 && e.Key >= 0 && e.Key < 2 && e.Key != k && (e.In.Kind == "write" || e.In.Kind == "delete"):
					mut = true
				}
				if !mut {
					continue
				}
				if e.Ret < wv.Call {
					if e.Key == k && e.In.Kind == "write" && (lastWrite == nil || e.Call > lastWrite.Call) {
						lastWrite = e
					}
					continue
				}
				if e.Call > wv.Ret {
					continue
				}
				stable = false // overlaps the walk
			}
			if !stable || lastWrite == nil {
				continue
			}
			for i := range all {
				e := &all[i]
				if e == lastWrite || e.Ret >= wv.Call {
					continue
				}
				mut := (e.Key == k && (e.In.Kind == "write" || e.In.Kind == "delete")) ||
					(e.Key == -1 && (e.In.Kind == "deleteall" || e.In.Kind == "evict" || e.In.Kind == "cleanup")) ||
					(collide && k < 2 && e.Key >= 0 && e.Key < 2 && e.Key != k && e.In.Kind == "write")
				if mut && e.Ret > maxOtherRet {
					maxOtherRet = e.Ret
				}
			}
			if maxOtherRet >= lastWrite.Call {
				continue // the last write is not strictly after every other mutation
			}
			if evict || cleanup {
				continue // evictions are only recorded when they removed something overall; keep the strict check to eviction-free histories
			}
			b.R.Count("walk.stable_keys.checked", 1)
			s, ok := seenByKey[k]
			if !ok || s.N != 1 || s.Tok != lastWrite.In.Tok {
				b.R.Violate(b, idx, "C08:"+kind+":walk-missed-stable-entry", fmt.Sprintf("key %d held %s unchanged during the whole Walk [%d,%d] but was reported %d times (tok %q) [%s]", k, lastWrite.In.Tok, wv.Call, wv.Ret, s.N, s.Tok, desc),
					map[string]interface{}{"history": desc, "walk": wv})
			}
		}
	}
	if conflict {
		b.R.Count("histories.concurrent_conflict", 1)
		b.R.Nontrivial(fmt.Sprintf("%s/%x", desc, patterns))
	}
	if idx == 0 && b.Index == 0 {
		var head []string
		for i, e := range all {
			if i >= 40 {
				break
			}
			head = append(head, fmt.Sprintf("[%d,%d] c%d k%d %+v -> %+v", e.Call, e.Ret, e.Client, e.Key, e.In, e.Out))
		}
		b.R.Sample(map[string]interface{}{"history": desc, "first_events": head})
	}
	_ = strings.Join
}
