package main

import (
	"context"
	"errors"
	"fmt"
	"math/rand"
	"sort"
	"strings"
	"sync"
	"sync/atomic"

	"github.com/bool64/cache"
)

// C15: label invalidation is complete, precise and loses nothing on failure.

type injectedDeleteErr struct{ pos int }

func (e *injectedDeleteErr) Error() string { return fmt.Sprintf("injected delete failure at position %d", e.pos) }

// faultDeleter fails the Delete call whose global position equals *failAt.
type faultDeleter struct {
	be     Backend
	pos    *int64 // shared position counter of the scenario
	failAt *int64 // -1: never
	log    *[]string
	id     int
	hook   *func(p int64) // hostile call-out: runs inside Delete (the index mutex is not held there)
}

func (d *faultDeleter) Delete(ctx context.Context, key []byte) error {
	p := atomic.AddInt64(d.pos, 1) - 1
	if d.log != nil {
		*d.log = append(*d.log, fmt.Sprintf("c%d:%s", d.id, keyLabel(key)))
	}
	if d.hook != nil && *d.hook != nil {
		(*d.hook)(p)
	}
	if p == atomic.LoadInt64(d.failAt) {
		return &injectedDeleteErr{pos: int(p)}
	}
	return d.be.Delete(ctx, key)
}

type c15Scenario struct {
	idx      *cache.InvalidationIndex
	backends []Backend            // distinct instances
	byName   map[string][]int     // name -> backend indices (with repetition)
	labels   map[string]map[string]map[string]int // name -> label -> key -> multiplicity
	keys     [][]byte
	pos      int64
	failAt   int64
	dlog     []string
	desc     []string
	invLabels []string
	hook     func(p int64)
	hookFired bool
}

func c15Build(seed int64) *c15Scenario {
	rng := rand.New(rand.NewSource(seed))
	sc := &c15Scenario{byName: map[string][]int{}, labels: map[string]map[string]map[string]int{}, failAt: -1}
	nNames := 1 + rng.Intn(3)
	nBack := 1 + rng.Intn(4)
	useEmbedded := rng.Intn(3) == 0
	for i := 0; i < nBack; i++ {
		sc.backends = append(sc.backends, newBackend(backendKinds[rng.Intn(3)], cache.Config{}))
	}
	names := []string{}
	if useEmbedded {
		// the index embedded in backend 0; its "default" name deletes from backend 0 itself (unwrapped)
		sc.idx = sc.backends[0].Index()
		sc.byName["default"] = []int{0}
		names = append(names, "default")
		sc.desc = append(sc.desc, "embedded index of "+sc.backends[0].Kind())
	} else {
		sc.idx = cache.NewInvalidationIndex()
	}
	for n := 0; n < nNames; n++ {
		name := fmt.Sprintf("n%d", n)
		names = append(names, name)
		cnt := 1 + rng.Intn(3)
		for j := 0; j < cnt; j++ {
			bi := rng.Intn(nBack)
			sc.idx.AddCache(name, &faultDeleter{be: sc.backends[bi], pos: &sc.pos, failAt: &sc.failAt, log: &sc.dlog, id: bi, hook: &sc.hook})
			sc.byName[name] = append(sc.byName[name], bi)
		}
	}
	// keys: a few plain ones plus (sometimes) a colliding pair
	nKeys := 2 + rng.Intn(7)
	for i := 0; i < nKeys; i++ {
		sc.keys = append(sc.keys, []byte(fmt.Sprintf("key-%c", 'a'+i)))
	}
	if rng.Intn(3) == 0 {
		sc.keys = append(sc.keys, collidingKeys(rng, 2)...)
	}
	// populate every backend with every key with probability 0.8
	for bi, be := range sc.backends {
		for ki, k := range sc.keys {
			if rng.Intn(5) != 0 {
				be.Write(bg, clone(k), fmt.Sprintf("v/b%d/k%d", bi, ki))
			}
		}
	}
	// labels
	nLabels := 1 + rng.Intn(5)
	allLabels := []string{}
	for l := 0; l < nLabels; l++ {
		allLabels = append(allLabels, fmt.Sprintf("L%d", l))
	}
	nAssoc := 1 + rng.Intn(14)
	for a := 0; a < nAssoc; a++ {
		name := names[rng.Intn(len(names))]
		k := sc.keys[rng.Intn(len(sc.keys))]
		nl := 1 + rng.Intn(3)
		var ls []string
		for j := 0; j < nl; j++ {
			ls = append(ls, allLabels[rng.Intn(len(allLabels))])
		}
		buf := clone(k)
		if name == "default" && rng.Intn(2) == 0 {
			sc.idx.AddInvalidationLabels(buf, ls...)
		} else {
			sc.idx.AddLabels(name, buf, ls...)
		}
		for i := range buf { // the index must not keep a reference to the caller's buffer
			buf[i] ^= 0xa5
		}
		for _, l := range ls {
			if sc.labels[name] == nil {
				sc.labels[name] = map[string]map[string]int{}
			}
			if sc.labels[name][l] == nil {
				sc.labels[name][l] = map[string]int{}
			}
			sc.labels[name][l][string(k)]++
		}
		sc.desc = append(sc.desc, fmt.Sprintf("%s:%s<-%v", name, keyLabel(k), ls))
	}
	// cache operations between labelling and invalidation do not touch the index: labels of rewritten keys still apply
	if rng.Intn(3) == 0 {
		bi := rng.Intn(nBack)
		switch rng.Intn(3) {
		case 0:
			sc.backends[bi].DeleteAll(bg)
		case 1:
			sc.backends[bi].ExpireAll(bg)
		default:
			sc.backends[bi].Delete(bg, clone(sc.keys[rng.Intn(len(sc.keys))]))
		}
		for ki, k := range sc.keys {
			if rng.Intn(2) == 0 {
				sc.backends[bi].Write(bg, clone(k), fmt.Sprintf("v2/b%d/k%d", bi, ki))
			}
		}
		sc.desc = append(sc.desc, fmt.Sprintf("backend %d emptied/expired and partly rewritten after labelling", bi))
	}
	// labels to invalidate: seeded subset, seeded order, possibly with a repeated or unknown label
	rng.Shuffle(len(allLabels), func(i, j int) { allLabels[i], allLabels[j] = allLabels[j], allLabels[i] })
	sc.invLabels = append([]string{}, allLabels[:1+rng.Intn(len(allLabels))]...)
	if rng.Intn(5) == 0 {
		sc.invLabels = append(sc.invLabels, sc.invLabels[0])
	}
	if rng.Intn(5) == 0 {
		sc.invLabels = append(sc.invLabels, "unknown-label")
	}
	return sc
}

type c15Content map[int]map[string]interface{} // backend -> key -> value

func (sc *c15Scenario) content() c15Content {
	c := c15Content{}
	for bi, be := range sc.backends {
		m := map[string]interface{}{}
		be.Walk(func(k []byte, v interface{}, _ timeT) error { m[string(k)] = v; return nil })
		c[bi] = m
	}
	return c
}

// expectedAbsent returns backend -> keys that must be gone after a successful invalidation of ls.
func (sc *c15Scenario) expectedAbsent(ls []string) map[int]map[string]bool {
	out := map[int]map[string]bool{}
	for name, byLabel := range sc.labels {
		for _, l := range ls {
			for k := range byLabel[l] {
				for _, bi := range sc.byName[name] {
					if out[bi] == nil {
						out[bi] = map[string]bool{}
					}
					out[bi][k] = true
				}
			}
		}
	}
	return out
}

func init() {
	register(&Engine{
		ID:      "C15",
		Batches: func(tier string) int { return 16 },
		Run:     runC15,
		Rule: "seeded incidence structures (<=11 keys incl. a hash-colliding pair, <=5 labels, <=3 names + embedded default index, 1..3 caches per name over 1..4 backends of all kinds, repeated labelling, repeated/unknown labels in the argument list); " +
			"each scenario is rebuilt and run once fault-free and once per delete position p with an injected deleter failure at p (complete fault enumeration), followed by recovery and retry; " +
			"plus concurrent AddLabels/AddCache/InvalidateByLabels workloads; distinct_nontrivial = distinct (scenario seed, fault position) runs in which at least one labelled entry existed",
		Required: []string{"runs.nofault", "runs.fault", "fault.error_returned", "retry.checked", "concurrent.runs", "removed.entries", "hostile_label.followups", "bulk.invalidations"},
		Assumptions: []string{"labels consumed by a successful invalidation are not re-applied (workloads never rewrite a key after its label was consumed)"},
	})
}

func runC15(b *Batch) {
	n := b.Pick(8000, 300000) / b.NBatches
	for i := 0; i < n; i++ {
		if b.Skip(i) {
			continue
		}
		i := i
		b.Guard(i, "C15", func() { c15Case(b, i) })
		collectGarbage(i)
	}
	nc := b.Pick(256, 8000) / b.NBatches
	for i := 0; i < nc; i++ {
		if b.Skip(n + i) {
			continue
		}
		c15Concurrent(b, n+i)
	}
	nb := b.Pick(16, 160) / b.NBatches
	if nb == 0 {
		nb = 1
	}
	for i := 0; i < nb; i++ {
		if !b.Skip(n + nc + i) {
			c15Bulk(b, n+nc+i)
		}
	}
}

// c15Bulk: one label carrying thousands of keys (sizes around and between multiples of 1000), a second label sharing some
// of them; invalidation removes every labelled entry, the count is the number of entries removed, nothing else is touched.
func c15Bulk(b *Batch, idx int) {
	rng := rand.New(rand.NewSource(b.CaseSeed(idx)))
	kind := backendKinds[rng.Intn(3)]
	be := newBackend(kind, cache.Config{})
	index := cache.NewInvalidationIndex()
	index.AddCache("bulk", be.(cache.Deleter))
	n := []int{1001, 1999, 2500, 4096, 1000, 3001, 10007}[rng.Intn(7)] + rng.Intn(3)
	for i := 0; i < n; i++ {
		k := []byte(fmt.Sprintf("lk-%d", i))
		_ = be.Write(bg, k, "v")
		index.AddLabels("bulk", k, "big")
		if i%10 == 0 {
			index.AddLabels("bulk", k, "tenth")
		}
	}
	bystanders := 100 + rng.Intn(100)
	for i := 0; i < bystanders; i++ {
		_ = be.Write(bg, []byte(fmt.Sprintf("plain-%d", i)), "v")
	}
	labels := [][]string{{"big"}, {"big", "tenth"}, {"tenth", "big"}}[rng.Intn(3)]
	cnt, err := index.InvalidateByLabels(bg, labels...)
	b.R.Eval()
	b.R.Count("bulk.invalidations", 1)
	b.R.Count("bulk.labelled_keys", int64(n))
	b.R.Nontrivial(fmt.Sprintf("bulk/%s/n=%d/labels=%d", kind, n, len(labels)))
	if err != nil || cnt != n || be.Len() != bystanders {
		b.R.Violate(b, idx, "C15:bulk:incomplete", fmt.Sprintf("%s: label with %d keys: InvalidateByLabels returned (%d,%v), %d labelled entries are still stored (Len=%d with %d unlabelled entries)", kind, n, cnt, err, be.Len()-bystanders, be.Len(), bystanders),
			map[string]interface{}{"backend": kind, "keys": n, "labels": labels})
	}
}

func c15Case(b *Batch, idx int) {
	seed := b.CaseSeed(idx)
	// fault-free run
	total := c15Run(b, idx, seed, -1)
	// fault at every delete position
	for p := 0; p < total; p++ {
		c15Run(b, idx, seed, p)
	}
}

// c15Run builds the scenario, invalidates with a fault at position failAt (-1: none) and judges the outcome.
// It returns the number of Delete calls observed.
func c15Run(b *Batch, idx int, seed int64, failAt int) (deletes int) {
	sc := c15Build(seed)
	sc.failAt = int64(failAt)
	before := sc.content()
	want := sc.expectedAbsent(sc.invLabels)
	// hostile call-out: while a Delete is in flight (at the failing position, or at position 0 of a fault-free run) another
	// key gets one of the invalidated labels - exactly what a concurrent AddLabels would do
	hostile := mix64(uint64(seed))%3 == 0
	hostileName := ""
	var hostileKey []byte
	if hostile {
		var ns []string
		for n := range sc.byName {
			if n != "default" {
				ns = append(ns, n)
			}
		}
		sort.Strings(ns)
		hostileName = ns[int(mix64(uint64(seed)+1)%uint64(len(ns)))]
		hostileKey = sc.keys[int(mix64(uint64(seed)+2)%uint64(len(sc.keys)))]
		at := int64(failAt)
		if at < 0 {
			at = 0
		}
		sc.hook = func(p int64) {
			if p == at && !sc.hookFired {
				sc.hookFired = true
				sc.idx.AddLabels(hostileName, clone(hostileKey), sc.invLabels[0])
				b.R.Count("hostile_label.added_during_delete", 1)
			}
		}
	}
	witness := map[string]interface{}{"scenario_seed": seed, "fail_at": failAt, "labels": sc.invLabels, "assoc": sc.desc, "names": fmt.Sprint(sc.byName)}
	fail := func(what, msg string) {
		witness["deletes"] = sc.dlog
		b.R.Violate(b, idx, "C15:"+what, fmt.Sprintf("%s (fail_at=%d): %s", what, failAt, msg), witness)
	}
	b.R.Eval()
	anyLabelled := false
	for bi, ks := range want {
		for k := range ks {
			if _, ok := before[bi][k]; ok {
				anyLabelled = true
			}
		}
	}
	if anyLabelled {
		b.R.Nontrivial(fmt.Sprintf("%x/%d", seed, failAt))
	}
	if failAt < 0 {
		b.R.Count("runs.nofault", 1)
	} else {
		b.R.Count("runs.fault", 1)
	}

	var cnt int
	var err error
	panicked := c15Call(func() { cnt, err = sc.idx.InvalidateByLabels(bg, sc.invLabels...) })
	if panicked != nil {
		fail("panic", fmt.Sprintf("InvalidateByLabels panicked: %v", panicked))
		return int(sc.pos)
	}
	after := sc.content()
	removed := 0
	for bi := range before {
		removed += len(before[bi]) - len(after[bi])
	}
	checkUntouched := func(after c15Content, mustBeGone bool) {
		for bi, m := range before {
			for k, v := range m {
				av, ok := after[bi][k]
				if hostile && sc.hookFired && k == string(hostileKey) {
					inName := false
					for _, hb := range sc.byName[hostileName] {
						if hb == bi {
							inName = true
						}
					}
					if inName {
						continue // labelled during the call: may or may not be removed by this very call
					}
				}
				if want[bi][k] {
					if mustBeGone && ok {
						fail("incomplete", fmt.Sprintf("labelled key %s still present in backend %d", keyLabel([]byte(k)), bi))
					}
					continue
				}
				if !ok || av != v {
					fail("imprecise", fmt.Sprintf("unlabelled key %s in backend %d changed: %v -> %v (present=%v)", keyLabel([]byte(k)), bi, v, av, ok))
				}
			}
		}
		for bi, m := range after {
			for k := range m {
				if _, ok := before[bi][k]; !ok {
					fail("imprecise", fmt.Sprintf("key %s appeared in backend %d", keyLabel([]byte(k)), bi))
				}
			}
		}
	}
	if err == nil {
		if failAt >= 0 && int(sc.pos) > failAt {
			fail("error-swallowed", "a deleter failed but InvalidateByLabels returned nil")
		}
		checkUntouched(after, true)
		if cnt != removed {
			fail("count", fmt.Sprintf("returned count %d, entries actually removed %d", cnt, removed))
		}
		b.R.Count("removed.entries", int64(removed))
		if idx == 0 && failAt < 0 {
			b.R.Sample(witness)
		}
		if hostile && sc.hookFired {
			c15HostileFollowUp(b, sc, hostileName, hostileKey, fail)
		}
		return int(sc.pos)
	}
	// error path
	var ie *injectedDeleteErr
	if !errors.As(err, &ie) || ie.pos != failAt {
		fail("wrong-error", fmt.Sprintf("returned error %v is not the injected one", err))
		return int(sc.pos)
	}
	b.R.Count("fault.error_returned", 1)
	checkUntouched(after, false)
	// recovery and retry: every labelled key still present must now be removed
	sc.failAt = -1
	var cnt2 int
	var err2 error
	if p := c15Call(func() { cnt2, err2 = sc.idx.InvalidateByLabels(bg, sc.invLabels...) }); p != nil {
		fail("panic", fmt.Sprintf("retry panicked: %v", p))
		return int(sc.pos)
	}
	after2 := sc.content()
	removed2 := 0
	for bi := range after {
		removed2 += len(after[bi]) - len(after2[bi])
	}
	b.R.Count("retry.checked", 1)
	if err2 != nil {
		fail("retry-error", fmt.Sprintf("retry without faults failed: %v", err2))
		return int(sc.pos)
	}
	checkUntouched(after2, true) // reports "incomplete" if a labelled key was lost from the index
	if hostile && sc.hookFired {
		// the key labelled while the failing Delete was in flight is still indexed: the retry (or at the latest one more
		// invalidation) removes it from every cache of its name
		c15HostileFollowUp(b, sc, hostileName, hostileKey, fail)
	}
	if cnt2 != removed2 {
		fail("count", fmt.Sprintf("retry returned count %d, entries actually removed %d", cnt2, removed2))
	}
	b.R.Count("removed.entries", int64(removed+removed2))
	return int(sc.pos)
}

func c15Call(f func()) (p interface{}) {
	defer func() { p = recover() }()
	f()
	return nil
}

// c15Concurrent: AddLabels/AddCache/InvalidateByLabels from several goroutines; at quiescence a final
// invalidation of all labels must leave no labelled key behind and the counts must add up.
func c15Concurrent(b *Batch, idx int) {
	rng := rand.New(rand.NewSource(b.CaseSeed(idx)))
	workers := 4 + rng.Intn(13)
	perWorker := 20 + rng.Intn(60)
	nLabels := 1 + rng.Intn(4)
	kind := backendKinds[rng.Intn(3)]
	be := newBackend(kind, cache.Config{})
	var index *cache.InvalidationIndex
	name := "default"
	if rng.Intn(2) == 0 {
		index = be.Index()
	} else {
		index = cache.NewInvalidationIndex()
		name = "n0"
		index.AddCache(name, be.(cache.Deleter))
	}
	labels := make([]string, nLabels)
	for i := range labels {
		labels[i] = fmt.Sprintf("L%d", i)
	}
	var total int64
	var wg sync.WaitGroup
	var written int64
	seeds := make([]int64, workers)
	for w := range seeds {
		seeds[w] = rng.Int63()
	}
	for w := 0; w < workers; w++ {
		wg.Add(1)
		go func(w int) {
			defer wg.Done()
			r := rand.New(rand.NewSource(seeds[w]))
			for i := 0; i < perWorker; i++ {
				switch r.Intn(10) {
				case 0, 1:
					n, err := index.InvalidateByLabels(bg, labels[r.Intn(nLabels)])
					if err != nil {
						b.R.Violate(b, idx, "C15:concurrent-error", err.Error(), nil)
					}
					atomic.AddInt64(&total, int64(n))
				case 2:
					// a new cache name appears while others invalidate (fresh name each time)
					nn := fmt.Sprintf("extra-%d-%d", w, i)
					index.AddCache(nn, be.(cache.Deleter))
					index.AddLabels(nn, []byte(fmt.Sprintf("never-written-%d-%d", w, i)), labels[r.Intn(nLabels)])
				default:
					k := []byte(fmt.Sprintf("w%d-%d", w, i))
					be.Write(bg, k, "v") // written before it is labelled, never rewritten
					atomic.AddInt64(&written, 1)
					index.AddLabels(name, k, labels[r.Intn(nLabels)])
				}
			}
		}(w)
	}
	wg.Wait()
	n, err := index.InvalidateByLabels(bg, labels...)
	total += int64(n)
	b.R.Eval()
	b.R.Count("concurrent.runs", 1)
	b.R.Nontrivial(fmt.Sprintf("conc/%x", b.CaseSeed(idx)))
	w := map[string]interface{}{"backend": kind, "workers": workers, "per_worker": perWorker, "labels": nLabels, "name": name}
	if err != nil {
		b.R.Violate(b, idx, "C15:concurrent-error", err.Error(), w)
	}
	var left []string
	be.Walk(func(k []byte, _ interface{}, _ timeT) error { left = append(left, string(k)); return nil })
	sort.Strings(left)
	if len(left) > 0 {
		b.R.Violate(b, idx, "C15:concurrent-incomplete", fmt.Sprintf("%d labelled keys survived the final invalidation: %s", len(left), strings.Join(left[:min(len(left), 5)], ",")), w)
	}
	if total != written-int64(len(left)) {
		b.R.Violate(b, idx, "C15:concurrent-count", fmt.Sprintf("sum of returned counts %d, entries removed %d", total, written-int64(len(left))), w)
	}
	b.R.Count("removed.entries", total)
}

// c15HostileFollowUp: a key that was labelled while a Delete was in flight must still be indexed afterwards.
func c15HostileFollowUp(b *Batch, sc *c15Scenario, name string, key []byte, fail func(what, msg string)) {
	sc.hook = nil
	sc.failAt = -1
	if _, err := sc.idx.InvalidateByLabels(bg, sc.invLabels[0]); err != nil {
		fail("retry-error", err.Error())
		return
	}
	b.R.Count("hostile_label.followups", 1)
	for _, bi := range sc.byName[name] {
		if _, err := sc.backends[bi].Read(bg, key); errClass(err) != "notfound" {
			fail("label-added-during-delete-lost", fmt.Sprintf("key %s was labelled %s under %s while a Delete of the same invalidation was in flight; a later invalidation of that label left it in backend %d", keyLabel(key), sc.invLabels[0], name, bi))
			return
		}
	}
}
