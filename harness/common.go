package main

import (
	"context"
	"encoding/binary"
	"errors"
	"fmt"
	"io"
	"math/bits"
	"math/rand"
	"syscall"
	"time"

	"github.com/bool64/cache"
	"github.com/cespare/xxhash/v2"
)

var sigQuit = syscall.SIGQUIT

var bg = context.Background()

type timeT = time.Time

// ---------------------------------------------------------------------------
// Uniform view of the three backends.

// Backend is the harness-side view of a cache backend; values are interface{} (string tokens or nil).
type Backend interface {
	Kind() string
	Read(ctx context.Context, key []byte) (interface{}, error)
	Write(ctx context.Context, key []byte, v interface{}) error
	Delete(ctx context.Context, key []byte) error
	ExpireAll(ctx context.Context)
	DeleteAll(ctx context.Context)
	Len() int
	Walk(fn func(key []byte, val interface{}, exp time.Time) error) (int, error)
	HasLoadStore() bool
	Load(key []byte) (interface{}, bool)
	Store(key []byte, v interface{})
	Dump(w io.Writer) (int, error)
	Restore(r io.Reader) (int, error)
	Index() *cache.InvalidationIndex
	// Expired extracts the stale value and expiry instant of an ErrExpired error.
	Expired(err error) (val interface{}, at time.Time, ok bool)
	AllowsNil() bool
	WDR() cache.WalkDumpRestorer
}

type smAdapter struct{ m *cache.ShardedMap }

func (a smAdapter) Kind() string { return "ShardedMap" }
func (a smAdapter) Read(ctx context.Context, k []byte) (interface{}, error) {
	return a.m.Read(ctx, k)
}
func (a smAdapter) Write(ctx context.Context, k []byte, v interface{}) error {
	return a.m.Write(ctx, k, v)
}
func (a smAdapter) Delete(ctx context.Context, k []byte) error { return a.m.Delete(ctx, k) }
func (a smAdapter) ExpireAll(ctx context.Context)              { a.m.ExpireAll(ctx) }
func (a smAdapter) DeleteAll(ctx context.Context)              { a.m.DeleteAll(ctx) }
func (a smAdapter) Len() int                                   { return a.m.Len() }
func (a smAdapter) Walk(fn func([]byte, interface{}, time.Time) error) (int, error) {
	return a.m.Walk(func(e cache.Entry) error { return fn(e.Key(), e.Value(), e.ExpireAt()) })
}
func (a smAdapter) HasLoadStore() bool                  { return true }
func (a smAdapter) Load(k []byte) (interface{}, bool)   { return a.m.Load(k) }
func (a smAdapter) Store(k []byte, v interface{})       { a.m.Store(k, v) }
func (a smAdapter) Dump(w io.Writer) (int, error)       { return a.m.Dump(w) }
func (a smAdapter) Restore(r io.Reader) (int, error)    { return a.m.Restore(r) }
func (a smAdapter) Index() *cache.InvalidationIndex     { return a.m.InvalidationIndex }
func (a smAdapter) AllowsNil() bool                     { return true }
func (a smAdapter) WDR() cache.WalkDumpRestorer         { return a.m }
func (a smAdapter) Expired(err error) (interface{}, time.Time, bool) { return expiredIface(err) }

type syAdapter struct{ m *cache.SyncMap }

func (a syAdapter) Kind() string { return "SyncMap" }
func (a syAdapter) Read(ctx context.Context, k []byte) (interface{}, error) {
	return a.m.Read(ctx, k)
}
func (a syAdapter) Write(ctx context.Context, k []byte, v interface{}) error {
	return a.m.Write(ctx, k, v)
}
func (a syAdapter) Delete(ctx context.Context, k []byte) error { return a.m.Delete(ctx, k) }
func (a syAdapter) ExpireAll(ctx context.Context)              { a.m.ExpireAll(ctx) }
func (a syAdapter) DeleteAll(ctx context.Context)              { a.m.DeleteAll(ctx) }
func (a syAdapter) Len() int                                   { return a.m.Len() }
func (a syAdapter) Walk(fn func([]byte, interface{}, time.Time) error) (int, error) {
	return a.m.Walk(func(e cache.Entry) error { return fn(e.Key(), e.Value(), e.ExpireAt()) })
}
func (a syAdapter) HasLoadStore() bool                { return false }
func (a syAdapter) Load(k []byte) (interface{}, bool) { panic("no Load") }
func (a syAdapter) Store(k []byte, v interface{})     { panic("no Store") }
func (a syAdapter) Dump(w io.Writer) (int, error)     { return a.m.Dump(w) }
func (a syAdapter) Restore(r io.Reader) (int, error)  { return a.m.Restore(r) }
func (a syAdapter) Index() *cache.InvalidationIndex   { return a.m.InvalidationIndex }
func (a syAdapter) AllowsNil() bool                   { return true }
func (a syAdapter) WDR() cache.WalkDumpRestorer       { return a.m }
func (a syAdapter) Expired(err error) (interface{}, time.Time, bool) { return expiredIface(err) }

func expiredIface(err error) (interface{}, time.Time, bool) {
	var ee cache.ErrWithExpiredItem
	if errors.As(err, &ee) {
		return ee.Value(), ee.ExpiredAt(), true
	}
	return nil, time.Time{}, false
}

// ofAdapter adapts ShardedMapOf[string]; nil values are not representable.
type ofAdapter struct{ m *cache.ShardedMapOf[string] }

func (a ofAdapter) Kind() string { return "ShardedMapOf" }
func (a ofAdapter) Read(ctx context.Context, k []byte) (interface{}, error) {
	v, err := a.m.Read(ctx, k)
	if err != nil {
		if v != "" {
			return v, fmt.Errorf("non-zero value %q returned with error: %w", v, err)
		}
		return nil, err
	}
	return v, nil
}
func (a ofAdapter) Write(ctx context.Context, k []byte, v interface{}) error {
	return a.m.Write(ctx, k, v.(string))
}
func (a ofAdapter) Delete(ctx context.Context, k []byte) error { return a.m.Delete(ctx, k) }
func (a ofAdapter) ExpireAll(ctx context.Context)              { a.m.ExpireAll(ctx) }
func (a ofAdapter) DeleteAll(ctx context.Context)              { a.m.DeleteAll(ctx) }
func (a ofAdapter) Len() int                                   { return a.m.Len() }
func (a ofAdapter) Walk(fn func([]byte, interface{}, time.Time) error) (int, error) {
	return a.m.Walk(func(e cache.EntryOf[string]) error { return fn(e.Key(), e.Value(), e.ExpireAt()) })
}
func (a ofAdapter) HasLoadStore() bool { return true }
func (a ofAdapter) Load(k []byte) (interface{}, bool) {
	v, ok := a.m.Load(k)
	if !ok {
		return nil, false
	}
	return v, true
}
func (a ofAdapter) Store(k []byte, v interface{})    { a.m.Store(k, v.(string)) }
func (a ofAdapter) Dump(w io.Writer) (int, error)    { return a.m.Dump(w) }
func (a ofAdapter) Restore(r io.Reader) (int, error) { return a.m.Restore(r) }
func (a ofAdapter) Index() *cache.InvalidationIndex  { return a.m.InvalidationIndex }
func (a ofAdapter) AllowsNil() bool                  { return false }
func (a ofAdapter) WDR() cache.WalkDumpRestorer      { return a.m.WalkDumpRestorer() }
func (a ofAdapter) Expired(err error) (interface{}, time.Time, bool) {
	var ee cache.ErrWithExpiredItemOf[string]
	if errors.As(err, &ee) {
		return ee.Value(), ee.ExpiredAt(), true
	}
	return nil, time.Time{}, false
}

var backendKinds = []string{"ShardedMap", "SyncMap", "ShardedMapOf"}

func newBackend(kind string, cfg cache.Config) Backend {
	switch kind {
	case "ShardedMap":
		return smAdapter{cache.NewShardedMap(cfg.Use)}
	case "SyncMap":
		return syAdapter{cache.NewSyncMap(cfg.Use)}
	case "ShardedMapOf":
		return ofAdapter{cache.NewShardedMapOf[string](cfg.Use)}
	}
	panic("unknown backend kind " + kind)
}

// ---------------------------------------------------------------------------
// Keys, including constructed xxhash64 collisions.

const (
	xxP1 uint64 = 11400714785074694791
	xxP2 uint64 = 14029467366897019727
)

func xxRound(acc, input uint64) uint64 {
	acc += input * xxP2
	acc = bits.RotateLeft64(acc, 31)
	acc *= xxP1
	return acc
}

func modInverse64(a uint64) uint64 { // a odd
	x := a
	for i := 0; i < 6; i++ {
		x *= 2 - a*x
	}
	return x
}

// collidingKeys returns n distinct 64-byte keys with identical xxhash64.
func collidingKeys(rng *rand.Rand, n int) [][]byte {
	base := make([]byte, 64)
	rng.Read(base)
	p1, p2 := xxP1, xxP2
	v1 := p1 + p2
	inv := modInverse64(xxP2)
	a := binary.LittleEndian.Uint64(base[0:8])
	b := binary.LittleEndian.Uint64(base[32:40])
	keys := [][]byte{base}
	for len(keys) < n {
		k := make([]byte, 64)
		copy(k, base)
		a2 := rng.Uint64()
		if a2 == a {
			continue
		}
		b2 := b + (xxRound(v1, a)-xxRound(v1, a2))*inv
		binary.LittleEndian.PutUint64(k[0:8], a2)
		binary.LittleEndian.PutUint64(k[32:40], b2)
		if xxhash.Sum64(k) != xxhash.Sum64(base) {
			panic("collision construction failed")
		}
		dup := false
		for _, e := range keys {
			if string(e) == string(k) {
				dup = true
			}
		}
		if !dup {
			keys = append(keys, k)
		}
	}
	if rng.Intn(3) == 0 {
		// long colliding keys: a common suffix keeps the hash state equal (both 32-byte stripes are consumed before it)
		suffix := make([]byte, []int{1, 65, 200, 4000}[rng.Intn(4)])
		rng.Read(suffix)
		for i := range keys {
			keys[i] = append(keys[i], suffix...)
		}
		for _, k := range keys[1:] {
			if xxhash.Sum64(k) != xxhash.Sum64(keys[0]) || string(k) == string(keys[0]) {
				panic("long collision construction failed")
			}
		}
	}
	return keys
}

// midPairKeys returns pairs of long keys of equal length that differ only in their middle (same prefix, same suffix).
func midPairKeys(rng *rand.Rand) [][]byte {
	var ks [][]byte
	for _, n := range []int{300, 513, 600, 1024, 5000}[rng.Intn(3):] {
		a := make([]byte, n)
		rng.Read(a)
		c := append([]byte(nil), a...)
		c[n/2] ^= byte(1 + rng.Intn(255))
		ks = append(ks, a, c)
	}
	return ks
}

// keyAlphabet returns a small alphabet of hostile keys (no hash collisions).
func keyAlphabet(rng *rand.Rand) [][]byte {
	mk := func(n int) []byte {
		b := make([]byte, n)
		rng.Read(b)
		return b
	}
	ks := [][]byte{
		{},
		{byte(rng.Intn(256))},
		mk(8),
		mk(31), mk(32), mk(33),
		mk(1024),
		{0x00},
		{0x00, 0x00},
		{0xff, 0x00, 0xff},
		[]byte("key-" + fmt.Sprint(rng.Intn(10))),
	}
	if rng.Intn(4) == 0 {
		ks = append(ks, mk(64*1024))
	}
	// drop duplicates
	seen := map[string]bool{}
	out := ks[:0]
	for _, k := range ks {
		if !seen[string(k)] {
			seen[string(k)] = true
			out = append(out, k)
		}
	}
	return out
}

func keyLabel(k []byte) string {
	if len(k) > 12 {
		return fmt.Sprintf("%x..(%d)", k[:6], len(k))
	}
	return fmt.Sprintf("%x", k)
}

func clone(b []byte) []byte {
	c := make([]byte, len(b))
	copy(c, b)
	return c
}

// advanceClock spins until the wall clock (as UnixNano) has strictly advanced.
func advanceClock() {
	t := time.Now().UnixNano()
	for time.Now().UnixNano() <= t {
	}
}

func errClass(err error) string {
	switch {
	case err == nil:
		return "ok"
	case errors.Is(err, cache.ErrNotFound):
		return "notfound"
	case errors.Is(err, cache.ErrExpired):
		return "expired"
	}
	return "other:" + err.Error()
}
