module verifharness

go 1.22

require (
	github.com/anishathalye/porcupine v1.3.0
	github.com/bool64/cache v0.0.0
	github.com/cespare/xxhash/v2 v2.2.0
)

replace github.com/bool64/cache => /repo
