package main

import (
	"bufio"
	"bytes"
	"errors"
	"fmt"
	"io"
	"math/rand"
	"net/http"
	"net/http/httptest"
	"os"
	"os/exec"
	"reflect"
	"sort"
	"strconv"
	"strings"
	"time"

	"github.com/bool64/cache"
)

// C14: HTTP transfer imports exactly what was exported and refuses mismatched types.

// A pool of 12 types for the types-hash checks.
type (
	P1  struct{ A int }
	P2  struct{ B string }
	P3  struct{ C *P1 }
	P4  struct{ D map[string]P2 }
	P5  struct{ E []P3 }
	P6  struct{ F [3]int }
	P7  int64
	P8  string
	P9  struct {
		G *P9
		H []*P4
	}
	P10 struct {
		P1
		I float64
	}
	P11 map[string][]P5
	P12 struct {
		J interface{}
		k int //nolint:unused
	}
)

var c14Pool = []interface{}{P1{}, P2{}, P3{}, P4{}, P5{}, P6{}, P7(0), P8(""), P9{}, P10{}, P11{}, P12{}}

func parseSpec(s string) []int {
	var out []int
	for _, p := range strings.Split(s, ",") {
		if p == "" {
			continue
		}
		n, _ := strconv.Atoi(p)
		out = append(out, n)
	}
	return out
}

// typesHashChild: vh typeshash <i,j,k,...> registers pool types in that order and prints the hash.
func typesHashChild(a []string) {
	registerSpec(a[0])
	fmt.Println(cache.GobTypesHash())
}

// registerSpec registers pool types: comma separated calls, '+' joins several types into one variadic GobRegister call.
func registerSpec(spec string) {
	for _, call := range strings.Split(spec, ",") {
		if call == "" {
			continue
		}
		var vals []interface{}
		for _, p := range strings.Split(call, "+") {
			n, _ := strconv.Atoi(p)
			vals = append(vals, c14Pool[n])
		}
		cache.GobRegister(vals...)
	}
}

// exporterChild: vh exporter <spec> - a separate process with its own registered type set serving one export request
// read from stdin (HTTP/1.1 request) and writing the response to stdout.
func exporterChild(a []string) {
	registerSpec(a[0])
	c := cache.NewShardedMap()
	for i := 0; i < 5; i++ {
		_ = c.Write(bg, []byte(fmt.Sprintf("remote-%d", i)), fmt.Sprintf("value-%d", i))
	}
	t := &cache.HTTPTransfer{}
	t.AddCache("shared", c)
	req, err := http.ReadRequest(bufio.NewReader(os.Stdin))
	if err != nil {
		fmt.Fprintln(os.Stderr, "read request:", err)
		os.Exit(2)
	}
	rec := httptest.NewRecorder()
	t.Export().ServeHTTP(rec, req)
	_ = rec.Result().Write(os.Stdout)
}

type c14Transport struct {
	handler   http.Handler
	onlyName  string // if set, the fault mode applies to this cache name only
	mode      string // "", tamper, truncate, failbody
	cut       int
	statuses  map[string]int
	bodyLens  map[string]int
	transport func(req *http.Request) (*http.Response, error)
}

type failingReader struct {
	r    io.Reader
	left int
}

func (f *failingReader) Read(p []byte) (int, error) {
	if f.left <= 0 {
		return 0, errors.New("injected body failure")
	}
	if len(p) > f.left {
		p = p[:f.left]
	}
	n, err := f.r.Read(p)
	f.left -= n
	return n, err
}

func (t *c14Transport) RoundTrip(req *http.Request) (*http.Response, error) {
	if t.transport != nil {
		return t.transport(req)
	}
	if err := req.Context().Err(); err != nil {
		return nil, err // a real transport honours the request context
	}
	name := req.URL.Query().Get("name")
	mode := t.mode
	if t.onlyName != "" && name != t.onlyName {
		mode = "" // the transport fault hits one cache only
	}
	if mode == "tamper" {
		q := req.URL.Query()
		h, _ := strconv.ParseUint(q.Get("typesHash"), 10, 64)
		q.Set("typesHash", strconv.FormatUint(h^0x5555, 10))
		req.URL.RawQuery = q.Encode()
	}
	rec := httptest.NewRecorder()
	t.handler.ServeHTTP(rec, req)
	resp := rec.Result()
	t.statuses[name] = resp.StatusCode
	body, _ := io.ReadAll(resp.Body)
	t.bodyLens[name] = len(body)
	switch mode {
	case "truncate":
		cut := t.cut
		if cut > len(body) {
			cut = len(body)
		}
		resp.Body = io.NopCloser(bytes.NewReader(body[:cut]))
	case "failbody":
		resp.Body = io.NopCloser(&failingReader{r: bytes.NewReader(body), left: t.cut})
	default:
		resp.Body = io.NopCloser(bytes.NewReader(body))
	}
	return resp, nil
}

func init() {
	register(&Engine{
		ID:      "C14",
		Batches: func(string) int { return 16 },
		Run:     runC14,
		Rule: "seeded transfer cases through an in-process RoundTripper that feeds the Import request to the Export handler (no sockets): subsets of 5 cache names on exporter and importer side, all backend families, seeded entry sets (C13 value alphabet), " +
			"transport modes {normal, typesHash tampered, body truncated at k, body failing at k}; oracle: common names equal the exporter's content, names unknown to the exporter get 404 and keep their sentinel entries, tampered hash gets 400 and nothing is imported, " +
			"truncated/failing bodies import a subset without panic; types hash: child processes register seeded permutations/multisets of a pool of 12 types (equal sets => equal hash in every process, set plus one type => different hash); " +
			"a genuinely separate exporter process with a different type set serves over stdin/stdout and nothing may be imported; distinct_nontrivial = distinct (names on both sides, mode, backend pairing) transfer cells + distinct type sets hashed",
		Required:    []string{"transfers.normal", "transfers.tampered", "transfers.truncated", "transfers.failbody", "status.404", "status.400", "status.200", "hash.processes", "hash.sets_compared", "hash.added_type_differs", "hash.variadic_groupings", "twoprocess.transfers", "latereg.equal_hash_imports", "latereg.stale_hash_requests", "entries.imported", "transfers.hostile_names", "transfers.fault_on_one_cache_only", "names_registered_twice", "hexhash.digit_only_hashes_transferred"},
		Assumptions: []string{"GobTypesHashReset is a test helper and is never called; the registered set is what a fresh process registered"},
		Timeout:     func(string) time.Duration { return 45 * time.Minute },
	})
}

func runC14(b *Batch) {
	registerGobTypes()
	n := b.Pick(1600, 480000) / b.NBatches
	for i := 0; i < n; i++ {
		if b.Skip(i) {
			continue
		}
		func() {
			defer func() {
				if r := recover(); r != nil {
					b.R.Violate(b, i, "C14:panic", fmt.Sprintf("panic during transfer: %v", r), nil)
				}
			}()
			c14Transfer(b, i)
		}()
	}
	nh := b.Pick(96, 4800) / b.NBatches
	for i := 0; i < nh; i++ {
		if b.Skip(n + i) {
			continue
		}
		c14Hash(b, n+i)
	}
	if b.Index < b.Pick(4, 16) && b.Only < 0 {
		c14TwoProcess(b, n+nh)
	}
	nl := b.Pick(8, 96) / b.NBatches
	if nl == 0 && b.Index < 8 {
		nl = 1
	}
	for i := 0; i < nl; i++ {
		if b.Skip(n + nh + 1 + i) {
			continue
		}
		c14LateRegister(b, n+nh+1+i)
	}
	if b.Index < b.Pick(2, 8) && !b.Skip(n+nh+500) {
		c14HexHash(b, n+nh+500)
	}
}

// lateRegChild: vh latereg <spec> - one long-lived Export handler in a process whose registered type set grows between
// requests (registration is process-global and add-only, hence the child process). After every registration step an
// importer of the same process (equal hash) must receive everything, and a request carrying any earlier hash must be refused.
func lateRegChild(a []string) {
	src := cache.NewShardedMap()
	for i := 0; i < 5; i++ {
		_ = src.Write(bg, []byte(fmt.Sprintf("remote-%d", i)), fmt.Sprintf("value-%d", i))
	}
	exp := &cache.HTTPTransfer{}
	exp.AddCache("shared", src)
	h := exp.Export()
	var old []uint64
	step := func(label string) {
		cur := cache.GobTypesHash()
		imp := &cache.HTTPTransfer{Transport: &c14Transport{handler: h, statuses: map[string]int{}, bodyLens: map[string]int{}}}
		dst := cache.NewShardedMap()
		imp.AddCache("shared", dst)
		err := imp.Import(bg, "http://exporter.invalid/export")
		if err != nil || dst.Len() != 5 {
			fmt.Printf("VIOL equal-hash-refused %s: importer with the exporter's current type set imported %d of 5 entries (err=%v)\n", label, dst.Len(), err)
		}
		for _, o := range old {
			if o == cur {
				continue
			}
			rec := httptest.NewRecorder()
			h.ServeHTTP(rec, httptest.NewRequest(http.MethodGet, "/export?name=shared&typesHash="+strconv.FormatUint(o, 10), nil))
			if rec.Code != http.StatusBadRequest {
				fmt.Printf("VIOL stale-hash-served %s: request with hash %d (exporter now %d) answered %d with %d body bytes\n", label, o, cur, rec.Code, rec.Body.Len())
			}
			fmt.Println("CHECKED stale")
		}
		old = append(old, cur)
		fmt.Println("CHECKED equal")
	}
	step("before")
	for i, call := range strings.Split(a[0], ",") {
		registerSpec(call)
		step(fmt.Sprintf("after-registration-%d(%s)", i+1, call))
	}
}

// hexHashChild: vh hexhash <seed> - registers synthetic struct types one at a time until the types hash, written in base 16,
// happens to contain decimal digits only (about one type set in 1850), then transfers a cache in-process: equal hashes,
// so everything must arrive. Hash values are data like any other; a wire format must not misread particular ones.
func hexHashChild(a []string) {
	seed, _ := strconv.ParseInt(a[0], 10, 64)
	rng := rand.New(rand.NewSource(seed))
	found := false
	for i := 0; i < 40000 && !found; i++ {
		fields := []reflect.StructField{
			{Name: fmt.Sprintf("F%d", rng.Intn(1<<30)), Type: reflect.TypeOf(0)},
			{Name: fmt.Sprintf("G%d", i), Type: reflect.TypeOf("")},
		}
		cache.GobRegister(reflect.New(reflect.StructOf(fields)).Elem().Interface())
		hx := strconv.FormatUint(cache.GobTypesHash(), 16)
		found = strings.IndexFunc(hx, func(r rune) bool { return r < '0' || r > '9' }) < 0
	}
	if !found {
		fmt.Println("NOTFOUND")
		return
	}
	src := cache.NewShardedMap()
	for i := 0; i < 7; i++ {
		_ = src.Write(bg, []byte(fmt.Sprintf("remote-%d", i)), fmt.Sprintf("value-%d", i))
	}
	exp := &cache.HTTPTransfer{}
	exp.AddCache("shared", src)
	imp := &cache.HTTPTransfer{Transport: &c14Transport{handler: exp.Export(), statuses: map[string]int{}, bodyLens: map[string]int{}}}
	dst := cache.NewShardedMap()
	imp.AddCache("shared", dst)
	err := imp.Import(bg, "http://exporter.invalid/export")
	fmt.Printf("HASH %x imported=%d err=%v\n", cache.GobTypesHash(), dst.Len(), err)
}

func c14HexHash(b *Batch, idx int) {
	out, err := c14RunSelf("hexhash", strconv.FormatInt(b.CaseSeed(idx)&0xffffff, 10))
	b.R.Eval()
	if err != nil || !strings.HasPrefix(out, "HASH ") {
		b.R.Inconcl("C14 digits-only hash not found / child failed: " + trunc(out, 80))
		return
	}
	b.R.Count("hexhash.digit_only_hashes_transferred", 1)
	b.R.Nontrivial("hexhash/" + strings.Fields(out)[1])
	if !strings.Contains(out, "imported=7 err=<nil>") {
		b.R.Violate(b, idx, "C14:equal-hash-refused-for-particular-hash-value", "exporter and importer share one type set (same process) whose hash is "+out+": want imported=7", map[string]interface{}{"child": out})
	}
}

func c14LateRegister(b *Batch, idx int) {
	rng := rand.New(rand.NewSource(b.CaseSeed(idx)))
	perm := rng.Perm(len(c14Pool))[:1+rng.Intn(3)]
	var parts []string
	for _, p := range perm {
		parts = append(parts, strconv.Itoa(p))
	}
	spec := strings.Join(parts, ",")
	out, err := c14RunSelf("latereg", spec)
	b.R.Eval()
	if err != nil {
		b.R.Inconcl("C14 late registration child failed: " + err.Error())
		return
	}
	b.R.Nontrivial("latereg/" + spec)
	for _, line := range strings.Split(out, "\n") {
		switch {
		case strings.HasPrefix(line, "VIOL "):
			f := strings.SplitN(line[5:], " ", 2)
			b.R.Violate(b, idx, "C14:latereg-"+f[0], line[5:], map[string]interface{}{"registrations": spec})
		case line == "CHECKED equal":
			b.R.Count("latereg.equal_hash_imports", 1)
		case line == "CHECKED stale":
			b.R.Count("latereg.stale_hash_requests", 1)
		}
	}
}

func c14Family(rng *rand.Rand) (string, string) {
	switch rng.Intn(3) {
	case 0:
		return "ShardedMapOf", "ShardedMapOf"
	default:
		k := []string{"ShardedMap", "SyncMap"}
		return k[rng.Intn(2)], k[rng.Intn(2)]
	}
}

func c14Transfer(b *Batch, idx int) {
	rng := rand.New(rand.NewSource(b.CaseSeed(idx)))
	names := []string{"a", "b", "c", "d", "e"}
	if rng.Intn(2) == 0 {
		// names that need query escaping; some decode to another registered name when escaped wrongly
		names = []string{"orders+returns", "orders returns", "stats&legacy", "stats", "x/y?z=1", "ü%41"}
		b.R.Count("transfers.hostile_names", 1)
	}
	exp := &cache.HTTPTransfer{}
	imp := &cache.HTTPTransfer{}
	type side struct {
		src, dst Backend
	}
	sides := map[string]*side{}
	var replaced []Backend
	var cell []string
	for _, nm := range names {
		onExp, onImp := rng.Intn(3) != 0, rng.Intn(3) != 0
		sk, dk := c14Family(rng)
		s := &side{}
		if onExp {
			s.src = newBackend(sk, cache.Config{TimeToLive: cache.UnlimitedTTL})
			ne := rng.Intn(40)
			for i := 0; i < ne; i++ {
				var v interface{} = fmt.Sprintf("%s-%d", nm, i)
				if sk != "ShardedMapOf" {
					v = randGobValue(rng, true, i)
				}
				ctx := bg
				if rng.Intn(2) == 0 {
					ctx = cache.WithTTL(bg, time.Duration(rng.Intn(3)-1)*time.Hour, false)
				}
				s.src.Write(ctx, []byte(fmt.Sprintf("%s/key-%d", nm, i)), v)
				if sk == "ShardedMapOf" || true {
					_ = v
				}
			}
			exp.AddCache(nm, s.src.WDR())
		}
		if onImp {
			s.dst = newBackend(dk, cache.Config{TimeToLive: cache.UnlimitedTTL})
			if !onExp {
				s.dst.Write(bg, []byte("sentinel-"+nm), "sentinel")
			}
			if rng.Intn(4) == 0 {
				// the name was registered before with another cache: the later registration replaces it
				old := newBackend(dk, cache.Config{TimeToLive: cache.UnlimitedTTL})
				imp.AddCache(nm, old.WDR())
				replaced = append(replaced, old)
				b.R.Count("names_registered_twice", 1)
			}
			imp.AddCache(nm, s.dst.WDR())
		}
		sides[nm] = s
		cell = append(cell, fmt.Sprintf("%s:%v/%v/%s>%s", nm, onExp, onImp, sk, dk))
	}
	mode := []string{"", "", "tamper", "truncate", "failbody"}[rng.Intn(5)]
	tr := &c14Transport{handler: exp.Export(), mode: mode, cut: rng.Intn(600), statuses: map[string]int{}, bodyLens: map[string]int{}}
	if mode != "" && rng.Intn(2) == 0 {
		tr.onlyName = names[rng.Intn(len(names))]
		b.R.Count("transfers.fault_on_one_cache_only", 1)
	}
	imp.Transport = tr
	err := imp.Import(bg, "http://exporter.invalid/export")
	b.R.Eval()
	for _, old := range replaced {
		if old.Len() != 0 {
			b.R.Violate(b, idx, "C14:import-filled-replaced-cache", fmt.Sprintf("Import put %d entries into a cache whose name had been re-registered with another cache", old.Len()), map[string]interface{}{"cell": cell})
		}
	}
	b.R.Nontrivial(strings.Join(cell, ",") + "/" + mode)
	switch mode {
	case "":
		b.R.Count("transfers.normal", 1)
	case "tamper":
		b.R.Count("transfers.tampered", 1)
	case "truncate":
		b.R.Count("transfers.truncated", 1)
	case "failbody":
		b.R.Count("transfers.failbody", 1)
	}
	w := map[string]interface{}{"cell": cell, "mode": mode, "cut": tr.cut, "statuses": fmt.Sprint(tr.statuses)}
	fail := func(what, msg string) {
		b.R.Violate(b, idx, "C14:"+what, what+": "+msg+fmt.Sprintf(" [mode=%s %v]", mode, cell), w)
	}
	if idx == 0 && b.Index == 0 {
		b.R.Sample(w)
	}
	if err != nil {
		fail("import-error", err.Error())
	}
	for _, nm := range names {
		s := sides[nm]
		if s.dst == nil {
			if _, asked := tr.statuses[nm]; asked {
				fail("requested-unregistered", "importer requested cache "+nm+" which it has not registered")
			}
			continue
		}
		st := tr.statuses[nm]
		b.R.Count(fmt.Sprintf("status.%d", st), 1)
		dstSnap, _, _, _ := snapshot(s.dst)
		if s.src == nil {
			// unknown to the exporter: 404, cache left alone
			if st != http.StatusNotFound {
				fail("unknown-name-status", fmt.Sprintf("cache %s unknown to the exporter got status %d", nm, st))
			}
			if len(dstSnap) != 1 || dstSnap["sentinel-"+nm].Val != "sentinel" {
				fail("unknown-name-touched", fmt.Sprintf("cache %s unknown to the exporter was modified: %d entries", nm, len(dstSnap)))
			}
			continue
		}
		srcSnap, _, _, _ := snapshot(s.src)
		mode := mode
		if tr.onlyName != "" && nm != tr.onlyName {
			mode = "" // this cache's own transfer was healthy: it must be complete whatever happened to the others
		}
		switch mode {
		case "tamper":
			if st != http.StatusBadRequest {
				fail("hash-mismatch-status", fmt.Sprintf("types hash mismatch got status %d", st))
			}
			if len(dstSnap) != 0 {
				fail("hash-mismatch-imported", fmt.Sprintf("%d entries imported despite types hash mismatch", len(dstSnap)))
			}
		case "truncate", "failbody":
			for k, e := range dstSnap {
				se, ok := srcSnap[k]
				if !ok || !reflect.DeepEqual(se.Val, e.Val) || se.E != e.E {
					fail("partial-import-foreign", fmt.Sprintf("cache %s: entry %q=%v not in the exporter's cache after a cut body", nm, k, e.Val))
					break
				}
			}
			if tr.cut >= tr.bodyLens[nm] && mode == "truncate" && len(dstSnap) != len(srcSnap) {
				fail("import-incomplete", fmt.Sprintf("cache %s: body was complete but %d of %d entries imported", nm, len(dstSnap), len(srcSnap)))
			}
			b.R.Count("entries.imported", int64(len(dstSnap)))
		default:
			if st != http.StatusOK {
				fail("status", fmt.Sprintf("cache %s got status %d", nm, st))
			}
			if len(dstSnap) != len(srcSnap) {
				fail("import-incomplete", fmt.Sprintf("cache %s: %d of %d entries imported", nm, len(dstSnap), len(srcSnap)))
			}
			for k, se := range srcSnap {
				e, ok := dstSnap[k]
				if !ok || !reflect.DeepEqual(se.Val, e.Val) || se.E != e.E {
					fail("import-differs", fmt.Sprintf("cache %s: key %q exported as %v/%d imported as %v/%d (present=%v)", nm, k, se.Val, se.E, e.Val, e.E, ok))
					break
				}
			}
			b.R.Count("entries.imported", int64(len(dstSnap)))
		}
	}
}

func c14RunSelf(args ...string) (string, error) {
	self := os.Getenv("VH_SELF")
	if self == "" {
		self, _ = os.Executable()
	}
	cmd := exec.Command(self, args...)
	out, err := cmd.Output()
	return strings.TrimSpace(string(out)), err
}

func c14Hash(b *Batch, idx int) {
	rng := rand.New(rand.NewSource(b.CaseSeed(idx)))
	k := 1 + rng.Intn(6)
	set := rng.Perm(len(c14Pool))[:k]
	extra := -1
	for _, c := range rng.Perm(len(c14Pool)) {
		in := false
		for _, s := range set {
			if s == c {
				in = true
			}
		}
		if !in {
			extra = c
			break
		}
	}
	specOf := func(xs []int) string {
		var ss []string
		for _, x := range xs {
			ss = append(ss, strconv.Itoa(x))
		}
		return strings.Join(ss, ",")
	}
	var hashes []string
	var specs []string
	for v := 0; v < 3; v++ {
		order := append([]int(nil), set...)
		rng.Shuffle(len(order), func(i, j int) { order[i], order[j] = order[j], order[i] })
		if v > 0 { // repeated registration
			for r := 0; r < 1+rng.Intn(3); r++ {
				order = append(order, set[rng.Intn(len(set))])
			}
			rng.Shuffle(len(order), func(i, j int) { order[i], order[j] = order[j], order[i] })
		}
		spec := specOf(order)
		if v == 2 || rng.Intn(2) == 0 {
			// group consecutive registrations into variadic calls
			var sb strings.Builder
			for i, x := range order {
				if i > 0 {
					if rng.Intn(2) == 0 {
						sb.WriteByte('+')
					} else {
						sb.WriteByte(',')
					}
				}
				sb.WriteString(strconv.Itoa(x))
			}
			spec = sb.String()
			if strings.Contains(spec, "+") {
				b.R.Count("hash.variadic_groupings", 1)
			}
		}
		h, err := c14RunSelf("typeshash", spec)
		if err != nil {
			b.R.Inconcl("C14 typeshash child failed: " + err.Error())
			return
		}
		b.R.Count("hash.processes", 1)
		hashes = append(hashes, h)
		specs = append(specs, spec)
	}
	b.R.Eval()
	b.R.Count("hash.sets_compared", 1)
	sorted := append([]int(nil), set...)
	sort.Ints(sorted)
	b.R.Nontrivial("typeset/" + specOf(sorted))
	w := map[string]interface{}{"registrations": specs, "hashes": hashes}
	for _, h := range hashes[1:] {
		if h != hashes[0] {
			b.R.Violate(b, idx, "C14:hash-not-deterministic", fmt.Sprintf("the same set of types hashed differently across processes/orders: %v for %v", hashes, specs), w)
		}
	}
	if hashes[0] == "0" {
		b.R.Violate(b, idx, "C14:hash-zero", fmt.Sprintf("types %v hash to zero", specs[0]), w)
	}
	if extra >= 0 {
		h2, err := c14RunSelf("typeshash", specOf(append(append([]int(nil), set...), extra)))
		if err == nil {
			b.R.Count("hash.processes", 1)
			b.R.Count("hash.added_type_differs", 1)
			if h2 == hashes[0] {
				b.R.Violate(b, idx, "C14:hash-ignores-added-type", fmt.Sprintf("adding type %d to %v did not change the hash %s", extra, set, h2), w)
			}
		}
	}
}

// c14TwoProcess: the exporter is a separate process with a different registered type set.
func c14TwoProcess(b *Batch, idx int) {
	rng := rand.New(rand.NewSource(b.CaseSeed(idx)))
	spec := strconv.Itoa(rng.Intn(len(c14Pool)))
	imp := &cache.HTTPTransfer{}
	dst := cache.NewShardedMap()
	imp.AddCache("shared", dst)
	status := 0
	imp.Transport = &c14Transport{transport: func(req *http.Request) (*http.Response, error) {
		self := os.Getenv("VH_SELF")
		if self == "" {
			self, _ = os.Executable()
		}
		cmd := exec.Command(self, "exporter", spec)
		var reqBuf bytes.Buffer
		if err := req.Write(&reqBuf); err != nil {
			return nil, err
		}
		cmd.Stdin = &reqBuf
		out, err := cmd.Output()
		if err != nil {
			return nil, err
		}
		resp, err := http.ReadResponse(bufio.NewReader(bytes.NewReader(out)), req)
		if err == nil {
			status = resp.StatusCode
		}
		return resp, err
	}}
	err := imp.Import(bg, "http://exporter.invalid/export")
	b.R.Eval()
	b.R.Count("twoprocess.transfers", 1)
	b.R.Nontrivial("twoprocess/" + spec)
	w := map[string]interface{}{"exporter_types": spec, "status": status}
	if err != nil {
		b.R.Violate(b, idx, "C14:import-error", err.Error(), w)
	}
	if status == 0 {
		b.R.Inconcl("C14 two-process transfer: exporter child did not answer")
		return
	}
	if status != http.StatusBadRequest || dst.Len() != 0 {
		b.R.Violate(b, idx, "C14:twoprocess-mismatch-imported", fmt.Sprintf("exporter process with a different type set answered %d and %d entries were imported", status, dst.Len()), w)
	}
	// and with the same type set the transfer goes through
	imp2 := &cache.HTTPTransfer{}
	dst2 := cache.NewShardedMap()
	imp2.AddCache("shared", dst2)
	imp2.Transport = &c14Transport{transport: func(req *http.Request) (*http.Response, error) {
		// the exporter registers exactly what this process registered: GobVal, GobOther are not in the pool,
		// so this variant runs the exporter in-process through a pipe-serialised request/response instead
		var reqBuf bytes.Buffer
		if err := req.Write(&reqBuf); err != nil {
			return nil, err
		}
		r2, err := http.ReadRequest(bufio.NewReader(&reqBuf))
		if err != nil {
			return nil, err
		}
		src := cache.NewShardedMap()
		for i := 0; i < 5; i++ {
			_ = src.Write(bg, []byte(fmt.Sprintf("remote-%d", i)), GobVal{Name: "x", N: int64(i) + 1})
		}
		t := &cache.HTTPTransfer{}
		t.AddCache("shared", src)
		rec := httptest.NewRecorder()
		t.Export().ServeHTTP(rec, r2)
		var out bytes.Buffer
		_ = rec.Result().Write(&out)
		return http.ReadResponse(bufio.NewReader(&out), req)
	}}
	if err := imp2.Import(bg, "http://exporter.invalid/export"); err != nil || dst2.Len() != 5 {
		b.R.Violate(b, idx, "C14:wire-roundtrip", fmt.Sprintf("serialised request/response transfer imported %d of 5 entries (err=%v)", dst2.Len(), err), w)
	}
}
