package main

import (
	"context"
	"errors"
	"fmt"
	"math/rand"
	"sort"
	"time"

	"github.com/bool64/cache"
)

// C07: backends vs. a sequential map-with-expiry reference model.

// ncVal is a value of a type that Go's == cannot compare (comparing two of them through interfaces panics).
type ncVal []string

func norm(v interface{}) interface{} {
	if n, ok := v.(ncVal); ok {
		return "nc:" + n[0]
	}
	return v
}

type mEntry struct {
	val   interface{}
	class string // "fresh", "expired", "never"
}

type seqStep struct {
	Op  string `json:"op"`
	Key string `json:"key,omitempty"`
	Val string `json:"val,omitempty"`
	Opt string `json:"opt,omitempty"`
	Got string `json:"got,omitempty"`
}

var errWalkStop = errors.New("harness: stop walk")

func init() {
	register(&Engine{
		ID:      "C07",
		Batches: func(tier string) int { return 16 },
		Run:     runC07,
		Rule: "seeded random operation sequences (Write/Read/Delete/ExpireAll/DeleteAll/Len/Walk/Load/Store with ctx options none,+1h,-1s,-2h,ttl0,SkipRead) over a hostile key alphabet " +
			"on ShardedMap, SyncMap, ShardedMapOf[string] x TimeToLive{default,1h,Unlimited} x jitter{default,-1,1.0}; every result is compared with a reference map-with-expiry; " +
			"a case is one sequence; distinct_nontrivial counts distinct (backend,config,op-kind/state-class trace hash) of sequences with >=5 ops that exercised at least one expired or deleted entry",
		Required: []string{"op.Read", "op.Write", "op.Delete", "op.ExpireAll", "op.DeleteAll", "op.Walk", "op.Len", "op.Load", "op.Store", "read.expired_with_value", "read.skipread", "write.noncomparable", "write.shared_ctx", "write.skipread_ctx", "bulk.cases", "keys.long_pairs_differing_in_the_middle"},
		Assumptions: []string{
			"wall clock is not stepped during a run; entry states use TTL margins of >=1s so scheduling delays cannot flip fresh/expired",
			"janitor does not fire (DeleteExpiredJobInterval left at 1h)",
		},
		Finalize: func(agg *Result, tier string) []string {
			// every feasible (op, state-class) pair must have been exercised
			var missing []string
			for _, op := range []string{"Read", "Delete", "Write", "Load", "Store"} {
				for _, st := range []string{"absent", "fresh", "expired", "never"} {
					if !agg.Sets["op_state_pairs"][op+"/"+st] {
						missing = append(missing, op+"/"+st)
					}
				}
			}
			if len(missing) > 0 {
				return []string{"uncovered (op,state) pairs: " + fmt.Sprint(missing)}
			}
			return nil
		},
	})
}

func runC07(b *Batch) {
	nSeq := b.Pick(20000, 4000000) / b.NBatches
	for i := 0; i < nSeq; i++ {
		if b.Skip(i) {
			continue
		}
		i := i
		b.Guard(i, "C07", func() { c07Case(b, i) })
		collectGarbage(i)
	}
	nb := b.Pick(16, 320) / b.NBatches
	if nb == 0 {
		nb = 1
	}
	for i := 0; i < nb; i++ {
		if !b.Skip(nSeq + i) {
			i := i
			b.Guard(nSeq+i, "C07", func() { c07Bulk(b, nSeq+i) })
		}
	}
}

type ttlCfg struct {
	name string
	ttl  time.Duration
}

var c07TTLs = []ttlCfg{{"default", 0}, {"1h", time.Hour}, {"unlimited", cache.UnlimitedTTL}}
var c07Jitters = []float64{0, -1, 1.0}

func c07Case(b *Batch, idx int) {
	rng := rand.New(rand.NewSource(b.CaseSeed(idx)))
	kind := backendKinds[rng.Intn(len(backendKinds))]
	tc := c07TTLs[rng.Intn(len(c07TTLs))]
	jit := c07Jitters[rng.Intn(len(c07Jitters))]
	strat := c16Strategies[rng.Intn(3)]
	be := newBackend(kind, cache.Config{TimeToLive: tc.ttl, ExpirationJitter: jit, EvictionStrategy: strat})
	keys := keyAlphabet(rng)
	if rng.Intn(8) == 0 {
		keys = midPairKeys(rng) // long keys that share prefix, suffix and length
		b.R.Count("keys.long_pairs_differing_in_the_middle", 1)
	}
	if len(keys) > 9 {
		rng.Shuffle(len(keys), func(i, j int) { keys[i], keys[j] = keys[j], keys[i] })
		keys = keys[:6+rng.Intn(4)]
	}
	model := map[string]*mEntry{}
	nOps := 5 + rng.Intn(60)
	if rng.Intn(10) == 0 {
		nOps = 100 + rng.Intn(100)
	}
	steps := make([]seqStep, 0, nOps)
	tokN := 0
	trace := uint64(1469598103934665603)
	interesting := false
	cfgName := fmt.Sprintf("%s/ttl=%s/jit=%v/strategy=%d", kind, tc.name, jit, strat)
	b.R.Eval()

	fail := func(op, state, got, msg string) {
		sig := fmt.Sprintf("C07:%s:%s:%s:%s", kind, op, state, got)
		b.R.Violate(b, idx, sig, fmt.Sprintf("%s [%s] step %d: %s", sig, cfgName, len(steps), msg), map[string]interface{}{"config": cfgName, "steps": steps})
	}
	stateOf := func(k []byte) string {
		e := model[string(k)]
		if e == nil {
			return "absent"
		}
		return e.class
	}
	// ctx option for writes; returns ctx and resulting class
	// one TTL-carrying context reused by many writes of the case: nothing may write into it
	sharedTTL := []time.Duration{time.Hour, 90 * time.Minute, -time.Hour}[rng.Intn(3)]
	sharedCtx := cache.WithTTL(bg, sharedTTL, false)
	writeOpt := func() (context.Context, string, string) {
		if rng.Intn(6) == 0 {
			b.R.Count("write.shared_ctx", 1)
			if sharedTTL < 0 {
				return sharedCtx, "shared" + sharedTTL.String(), "expired"
			}
			return sharedCtx, "shared+" + sharedTTL.String(), "fresh"
		}
		switch rng.Intn(8) {
		case 6:
			return cache.WithTTL(bg, -48*time.Hour, false), "-48h", "expired" // longer than the default DeleteExpiredAfter
		case 7:
			return cache.WithTTL(bg, -100*365*24*time.Hour, false), "-100y", "expired" // negative timestamp
		case 0:
			return cache.WithTTL(bg, time.Hour, rng.Intn(2) == 0), "+1h", "fresh"
		case 1:
			return cache.WithTTL(bg, -time.Second, false), "-1s", "expired"
		case 2:
			return cache.WithTTL(bg, -2*time.Hour, false), "-2h", "expired"
		case 3:
			if tc.ttl == cache.UnlimitedTTL {
				return cache.WithTTL(bg, 0, false), "ttl0", "never"
			}
			return cache.WithTTL(bg, 0, false), "ttl0", "fresh"
		default:
			if tc.ttl == cache.UnlimitedTTL {
				return bg, "none", "never"
			}
			return bg, "none", "fresh"
		}
	}
	defaultClass := "fresh"
	if tc.ttl == cache.UnlimitedTTL {
		defaultClass = "never"
	}

	for s := 0; s < nOps; s++ {
		k := keys[rng.Intn(len(keys))]
		buf := clone(k) // the buffer handed to the library; scrambled afterwards
		scramble := func() {
			for i := range buf {
				buf[i] ^= 0x5a
			}
		}
		st := stateOf(k)
		r := rng.Intn(100)
		var opName string
		switch {
		case r < 30: // Write
			opName = "Write"
			ctx, optName, class := writeOpt()
			var v interface{}
			tokN++
			v = fmt.Sprintf("t%d/%d", idx, tokN)
			switch rng.Intn(12) {
			case 0:
				if be.AllowsNil() {
					v = nil
				}
			case 1:
				v = ""
			case 2, 3:
				if be.AllowsNil() { // interface-typed backends store any value, also one that == cannot compare
					v = ncVal{v.(string)}
					b.R.Count("write.noncomparable", 1)
				}
			}
			if rng.Intn(5) == 0 {
				ctx = cache.WithSkipRead(ctx) // SkipRead is a reader option: a write keeps its TTL option
				optName += "+skipread"
				b.R.Count("write.skipread_ctx", 1)
			}
			err := be.Write(ctx, buf, v)
			if got := cache.TTL(sharedCtx); got != sharedTTL {
				fail("Write", st, "ctx-ttl-altered", fmt.Sprintf("TTL carried by a caller's context changed from %v to %v during a write", sharedTTL, got))
				sharedCtx = cache.WithTTL(bg, sharedTTL, false)
			}
			scramble()
			steps = append(steps, seqStep{Op: "Write", Key: keyLabel(k), Val: fmt.Sprint(v), Opt: optName, Got: errClass(err)})
			if err != nil {
				fail("Write", st, errClass(err), "Write returned error")
			}
			model[string(k)] = &mEntry{val: v, class: class}
		case r < 60: // Read
			opName = "Read"
			ctx := bg
			opt := "none"
			if rng.Intn(6) == 0 {
				ctx = cache.WithSkipRead(bg)
				opt = "skipread"
			} else if rng.Intn(6) == 0 {
				ctx = cache.WithTTL(bg, -time.Hour, false) // TTL on a read must be irrelevant
				opt = "ttl-1h"
			}
			before := time.Now()
			v, err := be.Read(ctx, buf)
			scramble()
			steps = append(steps, seqStep{Op: "Read", Key: keyLabel(k), Opt: opt, Got: errClass(err) + "/" + fmt.Sprint(v)})
			e := model[string(k)]
			switch {
			case opt == "skipread":
				b.R.Count("read.skipread", 1)
				if !errors.Is(err, cache.ErrNotFound) || v != nil {
					fail("ReadSkip", st, errClass(err), fmt.Sprintf("SkipRead read returned (%v,%v), want ErrNotFound", v, err))
				}
			case e == nil:
				if !errors.Is(err, cache.ErrNotFound) || v != nil {
					fail("Read", st, errClass(err), fmt.Sprintf("absent key returned (%v,%v)", v, err))
				}
			case e.class == "fresh" || e.class == "never":
				if err != nil || norm(v) != norm(e.val) {
					fail("Read", st, errClass(err), fmt.Sprintf("got (%v,%v), want (%v,nil)", v, err, e.val))
				}
			default: // expired
				sv, at, ok := be.Expired(err)
				if !errors.Is(err, cache.ErrExpired) || !ok {
					fail("Read", st, errClass(err), fmt.Sprintf("expired entry returned (%v,%v), want ErrExpired with item", v, err))
				} else {
					b.R.Count("read.expired_with_value", 1)
					if norm(sv) != norm(e.val) {
						fail("ReadStaleValue", st, "wrongvalue", fmt.Sprintf("stale value %v, want %v", sv, e.val))
					}
					if v != nil {
						fail("Read", st, "value-with-expired", fmt.Sprintf("value %v returned together with ErrExpired", v))
					}
					if !at.Before(before) {
						fail("ReadExpiredAt", st, "future", fmt.Sprintf("ExpiredAt %v not before read time %v", at, before))
					}
					// must equal the expiry Walk reports for the key
					var wAt time.Time
					found := false
					be.Walk(func(wk []byte, _ interface{}, exp time.Time) error {
						if string(wk) == string(k) {
							wAt, found = exp, true
						}
						return nil
					})
					if !found || !wAt.Equal(at) {
						fail("ReadExpiredAt", st, "mismatch", fmt.Sprintf("ExpiredAt %v != Walk ExpireAt %v (found=%v)", at, wAt, found))
					}
				}
			}
		case r < 72: // Delete
			opName = "Delete"
			err := be.Delete(bg, buf)
			scramble()
			steps = append(steps, seqStep{Op: "Delete", Key: keyLabel(k), Got: errClass(err)})
			if model[string(k)] == nil {
				if !errors.Is(err, cache.ErrNotFound) {
					fail("Delete", st, errClass(err), "Delete of a missing key did not report ErrNotFound")
				}
			} else {
				if err != nil {
					fail("Delete", st, errClass(err), "Delete of a present key failed")
				}
				delete(model, string(k))
				interesting = true
			}
		case r < 76:
			opName = "ExpireAll"
			be.ExpireAll(bg)
			advanceClock()
			steps = append(steps, seqStep{Op: "ExpireAll"})
			for _, e := range model {
				e.class = "expired"
			}
			st = "-"
		case r < 79:
			opName = "DeleteAll"
			be.DeleteAll(bg)
			steps = append(steps, seqStep{Op: "DeleteAll"})
			model = map[string]*mEntry{}
			st = "-"
		case r < 84:
			opName = "Len"
			n := be.Len()
			steps = append(steps, seqStep{Op: "Len", Got: fmt.Sprint(n)})
			if n != len(model) {
				fail("Len", "-", "mismatch", fmt.Sprintf("Len=%d, model has %d", n, len(model)))
			}
			st = "-"
		case r < 90:
			opName = "Walk"
			st = "-"
			if rng.Intn(4) == 0 && len(model) > 0 {
				// walk stopped by callback error at position p
				p := rng.Intn(len(model))
				calls := 0
				n, err := be.Walk(func([]byte, interface{}, time.Time) error {
					if calls == p {
						calls++
						return errWalkStop
					}
					calls++
					return nil
				})
				steps = append(steps, seqStep{Op: "WalkStop", Opt: fmt.Sprint(p), Got: fmt.Sprintf("%d/%v", n, err)})
				if !errors.Is(err, errWalkStop) || n != p || calls != p+1 {
					fail("WalkStop", "-", "mismatch", fmt.Sprintf("walk stopped at %d returned n=%d err=%v calls=%d", p, n, err, calls))
				}
			} else {
				steps = append(steps, seqStep{Op: "Walk"})
				c07CompareWalk(be, model, fail)
			}
		case r < 95:
			if !be.HasLoadStore() {
				continue
			}
			opName = "Load"
			v, ok := be.Load(buf)
			scramble()
			steps = append(steps, seqStep{Op: "Load", Key: keyLabel(k), Got: fmt.Sprint(v, ok)})
			e := model[string(k)]
			if e != nil && (e.class == "fresh" || e.class == "never") {
				if !ok || norm(v) != norm(e.val) {
					fail("Load", st, "mismatch", fmt.Sprintf("Load=(%v,%v), want (%v,true)", v, ok, e.val))
				}
			} else if ok || v != nil {
				fail("Load", st, "mismatch", fmt.Sprintf("Load=(%v,%v), want (nil,false)", v, ok))
			}
		default:
			if !be.HasLoadStore() {
				continue
			}
			opName = "Store"
			tokN++
			v := fmt.Sprintf("t%d/%d", idx, tokN)
			be.Store(buf, v)
			scramble()
			steps = append(steps, seqStep{Op: "Store", Key: keyLabel(k), Val: v})
			model[string(k)] = &mEntry{val: v, class: defaultClass}
		}
		b.R.Count("op."+opName, 1)
		if st != "-" {
			b.R.SetAdd("op_state_pairs", opName+"/"+st)
			if st == "expired" {
				interesting = true
			}
		}
		trace = (trace ^ hashStr(opName+"/"+st)) * 1099511628211
	}
	// final comparison
	if n := be.Len(); n != len(model) {
		fail("Len", "-", "final", fmt.Sprintf("final Len=%d, model %d", n, len(model)))
	}
	c07CompareWalk(be, model, fail)
	if interesting && len(steps) >= 5 {
		b.R.Nontrivial(fmt.Sprintf("%s/%x", cfgName, trace))
	}
	if idx == 0 {
		b.R.Sample(map[string]interface{}{"config": cfgName, "steps": steps})
	}
}

func c07CompareWalk(be Backend, model map[string]*mEntry, fail func(op, state, got, msg string)) {
	type kv struct {
		k string
		v interface{}
	}
	var got []kv
	now := time.Now()
	n, err := be.Walk(func(k []byte, v interface{}, exp time.Time) error {
		got = append(got, kv{string(k), v})
		e := model[string(k)]
		if e == nil {
			return nil
		}
		switch e.class {
		case "never":
			if exp.UnixNano() != 0 {
				fail("WalkExpireAt", "never", "nonzero", fmt.Sprintf("never-expiring entry has ExpireAt %v", exp))
			}
		case "fresh":
			if !exp.After(now) {
				fail("WalkExpireAt", "fresh", "past", fmt.Sprintf("fresh entry has ExpireAt %v <= now", exp))
			}
		case "expired":
			if exp.UnixNano() == 0 || !exp.Before(now) {
				fail("WalkExpireAt", "expired", "notpast", fmt.Sprintf("expired entry has ExpireAt %v", exp))
			}
		}
		return nil
	})
	if err != nil || n != len(got) {
		fail("Walk", "-", "count", fmt.Sprintf("Walk returned (%d,%v) after %d callbacks", n, err, len(got)))
	}
	sort.Slice(got, func(i, j int) bool { return got[i].k < got[j].k })
	if len(got) != len(model) {
		fail("Walk", "-", "keyset", fmt.Sprintf("Walk visited %d entries, model has %d", len(got), len(model)))
		return
	}
	for i, g := range got {
		if i > 0 && got[i-1].k == g.k {
			fail("Walk", "-", "duplicate", fmt.Sprintf("key %x visited twice", g.k))
		}
		e := model[g.k]
		if e == nil {
			fail("Walk", "-", "keyset", fmt.Sprintf("Walk visited key %x unknown to the model", g.k))
		} else if norm(e.val) != norm(g.v) {
			fail("Walk", "-", "value", fmt.Sprintf("Walk value %v for key %x, model %v", g.v, g.k, e.val))
		}
	}
}
