package main

import (
	"strconv"
	"context"
	"fmt"
	"math/rand"
	"sort"
	"strings"
	"sync/atomic"
	"time"
)

type foFinding struct {
	Sig string
	Msg string
}

// ---- C01: no two concurrent builds per key (online monitor result)

func oracleOverlap(r *foRun) []foFinding {
	r.mu.Lock()
	defer r.mu.Unlock()
	var out []foFinding
	for _, o := range r.overlaps {
		out = append(out, foFinding{"overlap", o})
	}
	return out
}

// contended reports whether >=2 Gets for one key were in flight while a builder for that key was active.
func contended(log []foEvent) (bool, int) {
	inflight := map[int]int{}
	building := map[int]int{}
	maxWaiters := 0
	hit := false
	for _, e := range log {
		switch e.Kind {
		case "get.call":
			inflight[e.Key]++
		case "get.ret":
			inflight[e.Key]--
		case "build.enter":
			building[e.Key]++
		case "build.exit":
			building[e.Key]--
		}
		if e.Key >= 0 && building[e.Key] > 0 && inflight[e.Key] >= 2 {
			hit = true
			if inflight[e.Key] > maxWaiters {
				maxWaiters = inflight[e.Key]
			}
		}
	}
	return hit, maxWaiters
}

// ---- C02: provenance of every Get result

func oracleProvenance(r *foRun, log []foEvent) []foFinding {
	var out []foFinding
	prepop := map[string]int{}    // token -> key
	buildExit := map[string]int64{} // token -> seq of successful exit
	buildErrExit := map[int64]foEvent{}
	primed := map[int64]int{}
	injected := map[int64]foEvent{}
	bareExpired := map[int]int64{} // key -> seq of the first read that reported a bare ErrExpired
	for _, e := range log {
		if e.Kind == "be.read" && e.Note == "bare-expired" {
			if _, ok := bareExpired[e.Key]; !ok {
				bareExpired[e.Key] = e.Seq
			}
		}
		switch e.Kind {
		case "prepop":
			prepop[e.Val] = e.Key
		case "build.exit":
			if e.Val != "" {
				buildExit[e.Val] = e.Seq
			} else {
				buildErrExit[e.ErrN] = e
			}
		case "prime.failure":
			primed[e.ErrN] = e.Key
		case "be.read", "be.write":
			if e.Inject {
				injected[e.ErrN] = e
			}
		}
	}
	for _, e := range log {
		if e.Kind != "get.ret" {
			continue
		}
		where := fmt.Sprintf("get %d (task %d, key %d) returned (%q, zero=%v, err=%q)", e.Get, e.Task, e.Key, e.Val, e.Zero, e.Err)
		if e.ErrKind == "" {
			if e.Zero || e.Val == "" {
				out = append(out, foFinding{"fabricated-zero", where + ": zero value with nil error was never produced by a builder"})
				continue
			}
			if tk := tokKey(e.Val); tk != e.Key {
				out = append(out, foFinding{"cross-key-value", where + fmt.Sprintf(": value belongs to key %d", tk)})
				continue
			}
			if k, ok := prepop[e.Val]; ok {
				if k != e.Key {
					out = append(out, foFinding{"cross-key-value", where + ": pre-populated under another key"})
				}
				continue
			}
			seq, ok := buildExit[e.Val]
			if !ok {
				out = append(out, foFinding{"unknown-value", where + ": value was not produced by any builder invocation or pre-population"})
				continue
			}
			if seq > e.Seq {
				out = append(out, foFinding{"value-from-the-future", where + ": builder had not finished when Get returned"})
			}
			continue
		}
		switch e.ErrKind {
		case "build":
			if e.ErrKey != e.Key {
				out = append(out, foFinding{"cross-key-error", where + fmt.Sprintf(": builder error belongs to key %d", e.ErrKey)})
				continue
			}
			if k, ok := primed[e.ErrN]; ok {
				if k != e.Key {
					out = append(out, foFinding{"cross-key-error", where + ": cached failure of another key"})
				}
				continue
			}
			be, ok := buildErrExit[e.ErrN]
			if !ok {
				out = append(out, foFinding{"unknown-error", where + ": builder error was never produced"})
			} else if be.Seq > e.Seq {
				out = append(out, foFinding{"error-from-the-future", where + ": builder had not finished when Get returned"})
			}
		case "backend":
			ie, ok := injected[e.ErrN]
			if !ok {
				out = append(out, foFinding{"unknown-error", where + ": backend error was never injected"})
			} else if ie.Key != e.Key {
				out = append(out, foFinding{"cross-key-error", where + fmt.Sprintf(": backend error was injected on an operation for key %d", ie.Key)})
			}
		case "expired":
			// only legitimate if the backend itself produced a bare ErrExpired for this key before the Get returned
			if seq, ok := bareExpired[e.Key]; !ok || seq > e.Seq {
				out = append(out, foFinding{"foreign-error", where + ": ErrExpired was not produced by the backend for this key"})
			}
		default:
			out = append(out, foFinding{"foreign-error", where + ": error was produced neither by a builder nor by the (fault-injected) backend"})
		}
	}
	return out
}

// ---- C04: completion and lock release

type followResult struct {
	Key     int
	Blocked bool
	Built   bool
	Val     string
	Err     string
}

// followUp issues one un-steered Get per key with a watchdog.
func (r *foRun) followUp(keys []int, skipRead bool) []followResult {
	atomic.StoreInt32(&r.sched.steered, 0)
	r.sched.delayProb = 0
	r.faultAt, r.faultProb = -1, 0
	r.holdMax = 0
	var res []followResult
	for _, k := range keys {
		before := atomic.LoadInt64(&r.buildN)
		type ret struct {
			v   string
			err error
		}
		ch := make(chan ret, 1)
		go func() {
			ctx := context.WithValue(bg, foCtxKey{}, -1)
			if skipRead {
				// not used: forced rebuild is done by emptying the caches instead
			}
			v, _, err := r.fo.Get(ctx, clone(r.keys[k]), func(ctx context.Context) (string, error) {
				n := atomic.AddInt64(&r.buildN, 1)
				return fmt.Sprintf("k%d/f/%d", k, n), nil
			})
			ch <- ret{v, err}
		}()
		fr := followResult{Key: k}
		select {
		case x := <-ch:
			fr.Val = x.v
			if x.err != nil {
				fr.Err = x.err.Error()
			}
			// a stale value may have been served while the build runs in background: let it finish
			for dl := time.Now().Add(5 * time.Second); len(r.fo.LockedKeys()) > 0 && time.Now().Before(dl); {
				time.Sleep(50 * time.Microsecond)
			}
			fr.Built = atomic.LoadInt64(&r.buildN) > before
		case <-time.After(3 * time.Second):
			// nothing else is running: a blocked follow-up Get is waiting for a lock nobody holds
			fr.Blocked = true
		}
		res = append(res, fr)
	}
	return res
}

func oracleCompletion(r *foRun, outcome string, log []foEvent, usedKeys []int, colliding bool) []foFinding {
	var out []foFinding
	if outcome == "deadlock" {
		out = append(out, foFinding{"deadlock", "no task can run, no builder is active, but a Get is still blocked inside the library:\n" + trunc(r.sched.dumpText, 1500)})
		return out
	}
	if lk := r.fo.LockedKeys(); len(lk) > 0 {
		var ls []string
		for _, k := range lk {
			ls = append(ls, keyLabel([]byte(k)))
		}
		out = append(out, foFinding{"lock-leaked", fmt.Sprintf("per-key build locks remain after quiescence: %v", ls)})
	}
	// every successful build must be stored under the key it was requested for
	writes := map[string][]foEvent{}
	for _, e := range log {
		if e.Kind == "be.write" {
			writes[e.Val] = append(writes[e.Val], e)
		}
	}
	for _, e := range log {
		if e.Kind != "build.exit" || e.Val == "" {
			continue
		}
		ws := writes[e.Val]
		if len(ws) == 0 {
			out = append(out, foFinding{"build-result-not-stored", fmt.Sprintf("build n=%d for key %d produced %s but no backend write of it was attempted", e.N, e.Key, e.Val)})
			continue
		}
		for _, w := range ws {
			if w.Key != e.Key {
				out = append(out, foFinding{"build-result-under-wrong-key", fmt.Sprintf("build n=%d for key %d: result %s written under %s", e.N, e.Key, e.Val, describeKey(w))})
			}
		}
	}
	// the last completed successful build is observable: plain Get returns it (when nothing was written after it)
	lastWrite := map[int]foEvent{}
	for _, e := range log {
		if e.Kind == "be.write" && !e.Inject && e.Key >= 0 {
			lastWrite[e.Key] = e
		}
	}
	var plain []int
	for _, k := range usedKeys {
		if w, ok := lastWrite[k]; ok && strings.Contains(w.Val, "/b/") && w.TTL == 0 {
			plain = append(plain, k)
		}
	}
	if len(out) == 0 && !colliding { // a leaked lock would block these; colliding keys may evict each other (C09)
		for _, fr := range r.followUp(plain, false) {
			w := lastWrite[fr.Key]
			if fr.Blocked {
				out = append(out, foFinding{"followup-blocked", fmt.Sprintf("follow-up Get for key %d blocked although nothing is running", fr.Key)})
			} else if fr.Err != "" || fr.Val != w.Val || fr.Built {
				out = append(out, foFinding{"last-build-not-observed", fmt.Sprintf("key %d: last completed build stored %s but a later Get returned (%q,%q) built=%v", fr.Key, w.Val, fr.Val, fr.Err, fr.Built)})
			}
		}
	}
	// able to build again: force every entry out, the next Get must invoke the builder and return its result
	r.be.DeleteAll(bg)
	r.fo.ErrorsDeleteAll()
	for _, fr := range r.followUp(usedKeys, false) {
		switch {
		case fr.Blocked:
			out = append(out, foFinding{"followup-blocked", fmt.Sprintf("follow-up Get for key %d blocked although nothing is running (lock never released)", fr.Key)})
		case !fr.Built || fr.Err != "" || !strings.HasPrefix(fr.Val, fmt.Sprintf("k%d/f/", fr.Key)):
			out = append(out, foFinding{"cannot-build-again", fmt.Sprintf("after forced expiry Get for key %d returned (%q,%q) built=%v", fr.Key, fr.Val, fr.Err, fr.Built)})
		}
	}
	return out
}

// oracleNoLostUpdate (SyncRead configurations, serialised executions): the backend read that decides about a refresh of
// the stale value happens under the key lock, so nobody can push an older value over the stored result of a later build.
// Pre-populated tokens (k/p/n) are older than every build result; build results (k/b/n) are ordered by their invocation
// counter. A successful backend write of an older value after a newer build result was stored is a lost update.
// (Not applicable to runs whose builders return the pre-populated value again.)
func oracleNoLostUpdate(log []foEvent) []foFinding {
	var out []foFinding
	age := func(tok string) int64 { // -1 unknown, 0 pre-populated, n build invocation
		f := strings.Split(tok, "/")
		if len(f) != 3 {
			return -1
		}
		switch f[1] {
		case "p":
			return 0
		case "b":
			if n, err := strconv.ParseInt(f[2], 10, 64); err == nil {
				return n
			}
		}
		return -1
	}
	newest := map[int]foEvent{}
	for _, e := range log {
		if e.Kind != "be.write" || e.Inject || e.ErrKind != "" || e.Key < 0 || e.Val == "" {
			continue
		}
		a := age(e.Val)
		if a < 0 {
			continue
		}
		if nb, ok := newest[e.Key]; ok && a < age(nb.Val) {
			out = append(out, foFinding{"stale-overwrites-newer-build", fmt.Sprintf("key %d: get %d wrote the older value %s (ttl %v) over the result %s that the build of get %d had already stored", e.Key, e.Get, e.Val, time.Duration(e.TTL), nb.Val, nb.Get)})
			continue
		}
		if a > 0 {
			newest[e.Key] = e
		}
	}
	return out
}

func describeKey(e foEvent) string {
	if e.Key >= 0 {
		return fmt.Sprintf("key %d", e.Key)
	}
	return e.Info
}

func trunc(s string, n int) string {
	if len(s) > n {
		return s[:n] + "..."
	}
	return s
}

// ---- generic case generator for C01/C02/C04

type foCase struct {
	Cfg      foConfig          `json:"-"`
	CfgS     string            `json:"config"`
	Steered  bool              `json:"steered"`
	Strategy string            `json:"strategy"`
	NKeys    int               `json:"nkeys"`
	Collide  bool              `json:"colliding_keys"`
	States   []string          `json:"states"`
	Primed   []bool            `json:"primed"`
	Scripts  [][]getSpec       `json:"scripts"`
	FaultAt  int64             `json:"fault_at"`
	FaultOps string            `json:"fault_ops"`
	FailPct  int               `json:"builder_fail_pct"`
	SlowBuilds bool            `json:"slow_builds"`
	NilValues  bool            `json:"nil_values"`
	HostileExpireAllAt int64   `json:"hostile_expireall_at_callout,omitempty"`
	Seed     int64             `json:"seed"`
}

type foGenOpts struct {
	steered    bool
	maxWorkers int
	mutate     bool // include caller misbehaviour after return
	faults     bool
	forceSR    bool // SyncRead always on
	noSkip     bool
}

var foPairings = [][2]string{{"Failover", "ShardedMap"}, {"Failover", "SyncMap"}, {"FailoverOf", "ShardedMapOf"}}

func genFoCase(rng *rand.Rand, o foGenOpts) *foCase {
	c := &foCase{Steered: o.steered, FaultAt: -1}
	p := foPairings[rng.Intn(3)]
	c.Cfg = foConfig{API: p[0], BackendKind: p[1], SyncUpdate: rng.Intn(2) == 0, SyncRead: rng.Intn(2) == 0, FailHard: rng.Intn(2) == 0}
	if o.forceSR {
		c.Cfg.SyncRead = true
	}
	if rng.Intn(2) == 0 {
		c.Cfg.MaxStaleness = time.Hour
	}
	switch rng.Intn(3) {
	case 0:
		c.Cfg.FailedUpdateTTL = -1
	case 1:
		c.Cfg.FailedUpdateTTL = time.Hour
	}
	if rng.Intn(8) == 0 {
		// refreshed stale values expire again while the (slow) build is still running
		c.Cfg.UpdateTTL = time.Millisecond
		c.SlowBuilds = true
	}
	c.CfgS = c.Cfg.String()
	c.Strategy = []string{"random", "pct", "rtb"}[rng.Intn(3)]
	c.NKeys = 1 + rng.Intn(3)
	c.Collide = c.NKeys >= 2 && rng.Intn(3) == 0
	states := []string{"absent", "fresh", "stale", "toostale"}
	for k := 0; k < c.NKeys; k++ {
		st := states[rng.Intn(4)]
		if st == "toostale" && c.Cfg.MaxStaleness == 0 {
			st = "stale"
		}
		c.States = append(c.States, st)
		c.Primed = append(c.Primed, c.Cfg.FailedUpdateTTL != -1 && rng.Intn(7) == 0)
	}
	nw := 2 + rng.Intn(o.maxWorkers-1)
	for w := 0; w < nw; w++ {
		var sc []getSpec
		ng := 1 + rng.Intn(3)
		for g := 0; g < ng; g++ {
			sp := getSpec{Key: rng.Intn(c.NKeys)}
			if rng.Intn(3) != 0 {
				sp.Key = 0 // concentrate on one key
			}
			if !o.noSkip && rng.Intn(7) == 0 {
				sp.SkipRead = true
			}
			if o.mutate {
				switch rng.Intn(6) {
				case 0:
					sp.Cancel = true
				case 1:
					sp.Mutate = 2
				case 2:
					if c.NKeys > 1 {
						sp.Mutate = 1
						sp.MutateTo = (sp.Key + 1 + rng.Intn(c.NKeys-1)) % c.NKeys
					} else {
						sp.Mutate = 2
					}
				case 3:
					sp.PreCancel = rng.Intn(2) == 0
					sp.Deadline = !sp.PreCancel
				}
			}
			sc = append(sc, sp)
		}
		c.Scripts = append(c.Scripts, sc)
	}
	c.FailPct = []int{0, 30, 60, 100}[rng.Intn(4)]
	if o.faults && rng.Intn(3) == 0 {
		c.FaultAt = int64(1 + rng.Intn(24))
		c.FaultOps = []string{"read", "write", "both"}[rng.Intn(3)]
	}
	c.Seed = rng.Int63()
	return c
}

type foExec struct {
	run     *foRun
	outcome string
	log     []foEvent
	used    []int
}

func (c *foCase) keys(rng *rand.Rand) [][]byte {
	if c.Collide {
		return collidingKeys(rng, c.NKeys)
	}
	ks := make([][]byte, c.NKeys)
	for i := range ks {
		ks[i] = []byte(fmt.Sprintf("key-%c", 'A'+i))
	}
	if c.NKeys >= 2 && rng.Intn(5) == 0 {
		// a long key and the key that is its own prefix (64, 128 or 256 bytes): distinct keys
		long := make([]byte, []int{80, 129, 300}[rng.Intn(3)])
		rng.Read(long)
		ks[0] = long
		ks[1] = append([]byte(nil), long[:[]int{64, 128, 256}[rng.Intn(3)]%len(long)]...)
		if len(ks[1]) == 0 {
			ks[1] = long[:64]
		}
	}
	return ks
}

// run executes the case against the real code.
func (c *foCase) run() *foExec {
	rng := rand.New(rand.NewSource(c.Seed))
	sc := newSched(c.Steered, c.Strategy, rng)
	r := newFoRun(c.Cfg, c.keys(rng), sc)
	for k, st := range c.States {
		if st != "absent" {
			r.prepopulate(rng, k, st)
		}
		if c.Primed[k] && r.fo.HasErrors() {
			r.primeFailure(k)
		}
	}
	seed := uint64(c.Seed)
	failPct := uint64(c.FailPct)
	slow := c.SlowBuilds
	r.script = func(key, inv int) buildOutcome {
		h := mix64(seed ^ uint64(key+1)*0x9E3779B97F4A7C15 ^ uint64(inv+1)*0xC2B2AE3D27D4EB4F)
		out := buildOutcome{OK: h%100 >= failPct, CtxErr: (h>>9)%3 == 0, NotFound: (h>>9)%3 == 1, Nil: c.NilValues && (h>>13)%2 == 0}
		if slow {
			out.Sleep = 3 * time.Millisecond
		}
		return out
	}
	r.faultAt, r.faultOps = c.FaultAt, c.FaultOps
	r.hostileAt = c.HostileExpireAllAt
	if !c.Steered {
		r.holdMax = 300 * time.Microsecond
	}
	out := r.execute(c.Scripts)
	used := map[int]bool{}
	for _, s := range c.Scripts {
		for _, g := range s {
			used[g.Key] = true
		}
	}
	var uk []int
	for k := range used {
		uk = append(uk, k)
	}
	sort.Ints(uk)
	return &foExec{run: r, outcome: out, log: r.snapshotLog(), used: uk}
}

func (x *foExec) signature() string {
	if x.run.sched.sigHash != 0 {
		return fmt.Sprintf("%x", x.run.sched.sigHash)
	}
	h := uint64(1469598103934665603)
	for _, e := range x.log {
		h = (h ^ hashStr(fmt.Sprintf("%s/%d/%d", e.Kind, e.Task, e.Key))) * 1099511628211
	}
	return fmt.Sprintf("%x", h)
}

func (x *foExec) witness(c *foCase) map[string]interface{} {
	l := x.log
	if len(l) > 400 {
		l = l[:400]
	}
	tr := x.run.sched.trace
	if len(tr) > 400 {
		tr = tr[:400]
	}
	return map[string]interface{}{"case": c, "events": l, "schedule": tr, "outcome": x.outcome}
}
