package main

import (
	"context"
	"errors"
	"fmt"
	"math/rand"
	"strconv"
	"strings"
	"sync"
	"sync/atomic"
	"time"

	"github.com/bool64/cache"
)

// Failover run infrastructure: configuration, token values, fault-injecting backend wrappers, harness builders,
// logger/stats call-outs, event log. Used by C01..C06, C09 (buffer reuse) and C18.

type foConfig struct {
	API             string // "Failover" or "FailoverOf"
	BackendKind     string
	SyncUpdate      bool
	SyncRead        bool
	FailHard        bool
	MaxStaleness    time.Duration
	FailedUpdateTTL time.Duration
	UpdateTTL       time.Duration
	BackendTTL      time.Duration
	Observe         bool
	SliceVals       bool // interface API only: values are of a type that == cannot compare (a slice holding the token)
	PtrVals         bool // interface API only: values are pointers, one pointer per token (a builder that returns the cached token returns the identical pointer)
	ForeignExpired  bool // FailoverOf only: the user-supplied typed backend adapts an untyped store and passes its (non-generic) expired-item error through, the item being of another type
	BareExpired     bool // the (user-supplied) backend reports expiry as the bare ErrExpired sentinel, without the stale item
}

func (c foConfig) String() string {
	s := fmt.Sprintf("%s/%s/su=%v/sr=%v/fh=%v/ms=%v/fut=%v", c.API, c.BackendKind, c.SyncUpdate, c.SyncRead, c.FailHard, c.MaxStaleness, c.FailedUpdateTTL)
	if c.UpdateTTL != 0 {
		s += fmt.Sprintf("/ut=%v", c.UpdateTTL)
	}
	if c.BareExpired {
		s += "/bare-expired"
	}
	if c.SliceVals {
		s += "/slice-values"
	}
	if c.ForeignExpired {
		s += "/foreign-expired"
	}
	if c.PtrVals {
		s += "/pointer-values"
	}
	if c.Observe {
		s += "/observe"
	}
	return s
}

type buildErr struct {
	Key int
	N   int64
	Ctx bool // the builder failed with (a wrapped) context.Canceled, as builders calling remote services do
	NF  bool // the builder failed with an error wrapping cache.ErrNotFound ("no such record in the source")
}

func (e *buildErr) Error() string { return fmt.Sprintf("build error key=%d n=%d", e.Key, e.N) }

func (e *buildErr) Unwrap() error {
	if e.Ctx {
		return context.Canceled
	}
	if e.NF {
		return cache.ErrNotFound
	}
	return nil
}

type backendErr struct {
	Op  string
	Key int
	N   int64
}

func (e *backendErr) Error() string { return fmt.Sprintf("backend %s error key=%d n=%d", e.Op, e.Key, e.N) }

type foEvent struct {
	Seq     int64  `json:"seq"`
	Kind    string `json:"kind"`
	Task    int    `json:"task,omitempty"`
	Get     int    `json:"get,omitempty"`
	Key     int    `json:"key"`
	Val     string `json:"val,omitempty"`
	Zero    bool   `json:"zero,omitempty"`
	ErrKind string `json:"errkind,omitempty"` // build, backend, expired, notfound, other
	ErrKey  int    `json:"errkey,omitempty"`
	ErrN    int64  `json:"errn,omitempty"`
	Err     string `json:"err,omitempty"`
	N       int64  `json:"n,omitempty"`
	TTL     int64  `json:"ttl,omitempty"`
	Info    string `json:"info,omitempty"`
	Note    string `json:"note,omitempty"`
	Inject  bool   `json:"inject,omitempty"`
	Skip    bool   `json:"skip,omitempty"`
	CtxErr  string `json:"ctxerr,omitempty"`
	CtxGet  int    `json:"ctxget,omitempty"`
	Deadl   bool   `json:"deadline,omitempty"`
	Done    bool   `json:"done,omitempty"`
	BG      bool   `json:"bg,omitempty"`
	T       int64  `json:"t,omitempty"` // monotonic ns since run start
	W       int64  `json:"-"`           // wall clock UnixNano
	W0      int64  `json:"-"`           // wall clock before the operation (writes)
}

type ttlUpd struct {
	TTL    time.Duration
	Update bool
}

type buildOutcome struct {
	OK     bool
	Nil    bool          // successful outcome with a nil / zero value (only used by C01, which does not judge values)
	Same   bool          // successful outcome equal to the value pre-populated for the key (data source unchanged)
	CtxErr bool          // failing outcome wraps context.Canceled
	NotFound bool        // failing outcome wraps cache.ErrNotFound
	Sleep  time.Duration // the builder takes this long (real time) - for UpdateTTL-related windows
	TTLs   []ttlUpd
}

type getSpec struct {
	Key       int
	SkipRead  bool
	CallerTTL *time.Duration
	Cancel    bool // cancel the caller ctx right after Get returned
	PreCancel bool // ctx already cancelled when Get is called
	Deadline  bool // ctx carries a (far) deadline
	Mutate    int  // 0: no, 1: overwrite key buffer with another live key, 2: noise
	MutateTo  int
	ReuseBuildCtx bool // the Get is issued with a context kept from an earlier build of this key (a builder that stores its ctx)
}

type foAPI interface {
	Get(ctx context.Context, key []byte, build func(ctx context.Context) (string, error)) (val string, zero bool, err error)
	LockedKeys() []string
	HasErrors() bool
	ErrorsWrite(ctx context.Context, key []byte, err error)
	ErrorsExpireAll()
	ErrorsDeleteAll()
	ErrorsWalk(fn func(key []byte, err error, exp time.Time))
}

type foRun struct {
	cfg   foConfig
	keys  [][]byte
	kidx  map[string]int
	be    Backend
	fo    foAPI
	sched *sched
	name  string

	mu         sync.Mutex
	seq        int64
	log        []foEvent
	active     map[int]int
	buildCount map[int]int
	overlaps   []string
	getN       int64
	buildN     int64
	beCalls    int64
	tokN       int64
	ledger     map[string]float64

	faultAt   int64 // backend call index to fail (-1: none)
	faultProb float64
	faultOps  string // "read", "write", "both"
	script    func(key, invocation int) buildOutcome
	holdMax   time.Duration // free mode: builder holds its slot this long (random up to)
	prepop    map[int]string
	t0        time.Time
	captured  map[int]context.Context // per key: the context the first builder of that key ran with
	gate0     chan struct{}          // optional: builders of key 0 additionally wait here
	hostileAt int64 // >0: at this logger call-out (counted per run) somebody else calls ExpireAll on the backend
	calloutN  int64
	gateBG    chan struct{} // optional: background builders wait here (non-steered scenario tests)
	bgEntered chan int
}

var foYieldMsgs = map[string]bool{
	"waiting for cache value":                    true,
	"refreshing expired value":                   true,
	"building cache value":                       true,
	"failed to update stale cache value":         true,
	"failed to update cache value in background": true,
	"failed to cache update failure":             true,
}

func classifyErr(err error) (kind string, key int, n int64) {
	if err == nil {
		return "", 0, 0
	}
	var be *buildErr
	if errors.As(err, &be) {
		return "build", be.Key, be.N
	}
	var ke *backendErr
	if errors.As(err, &ke) {
		return "backend", ke.Key, ke.N
	}
	if errors.Is(err, cache.ErrExpired) {
		return "expired", 0, 0
	}
	if errors.Is(err, cache.ErrNotFound) {
		return "notfound", 0, 0
	}
	return "other", 0, 0
}

func (r *foRun) record(e foEvent) int64 {
	r.mu.Lock()
	r.seq++
	e.Seq = r.seq
	now := time.Now()
	e.T = int64(now.Sub(r.t0))
	e.W = now.UnixNano()
	r.log = append(r.log, e)
	s := r.seq
	r.mu.Unlock()
	return s
}

func (r *foRun) keyIndex(k []byte) int {
	if i, ok := r.kidx[string(k)]; ok {
		return i
	}
	return -1
}

func tokKey(tok string) int {
	// "k<idx>/..."
	if !strings.HasPrefix(tok, "k") {
		return -1
	}
	i := strings.IndexByte(tok, '/')
	if i < 0 {
		return -1
	}
	n, err := strconv.Atoi(tok[1:i])
	if err != nil {
		return -1
	}
	return n
}

func ctxGetID(ctx context.Context) int {
	id, _ := ctx.Value(foCtxKey{}).(int)
	return id
}

// ---- backend wrappers

func (r *foRun) inject(op string, n int64) bool {
	if r.faultOps != "" && r.faultOps != "both" && r.faultOps != op {
		return false
	}
	if r.faultAt == n {
		return true
	}
	if r.faultProb > 0 {
		h := mix64(uint64(n)*0x9E3779B97F4A7C15 ^ uint64(r.faultAt+77))
		return float64(h%10000)/10000 < r.faultProb
	}
	return false
}

func (r *foRun) beRead(ctx context.Context, key []byte) (interface{}, error) {
	n := atomic.AddInt64(&r.beCalls, 1)
	ki := r.keyIndex(key)
	r.sched.yield(ctx, "be.read.pre")
	ev := foEvent{Kind: "be.read", Get: ctxGetID(ctx), Key: ki, N: n, Skip: cache.SkipRead(ctx), TTL: int64(cache.TTL(ctx))}
	if ki < 0 {
		ev.Info = "unknown key " + keyLabel(key)
	}
	if r.inject("read", n) {
		err := &backendErr{Op: "read", Key: ki, N: n}
		ev.Inject, ev.ErrKind, ev.ErrKey, ev.ErrN = true, "backend", ki, n
		r.record(ev)
		r.sched.yield(ctx, "be.read.post")
		return nil, err
	}
	be := r.be
	if be == nil { // the run was already judged and released; a straggling background build gets a miss
		return nil, cache.ErrNotFound
	}
	v, err := be.Read(ctx, key)
	if r.cfg.BareExpired && err != nil && errors.Is(err, cache.ErrExpired) {
		ev.ErrKind, ev.Err, ev.Note = "expired", err.Error(), "bare-expired"
		r.record(ev)
		r.sched.yield(ctx, "be.read.post")
		return nil, cache.ErrExpired
	}
	if r.cfg.ForeignExpired && err != nil && errors.Is(err, cache.ErrExpired) {
		_, at, _ := be.Expired(err)
		ev.ErrKind, ev.Err, ev.Note = "expired", err.Error(), "foreign-expired-item"
		r.record(ev)
		r.sched.yield(ctx, "be.read.post")
		return nil, foreignExpired{at: at}
	}
	if s, ok := tokOf(v); ok {
		ev.Val = s
	}
	ev.ErrKind, _, _ = classifyErr(err)
	if err != nil {
		ev.Err = err.Error()
		if sv, _, ok := be.Expired(err); ok {
			ev.Val, _ = tokOf(sv)
		}
	}
	r.record(ev)
	r.sched.yield(ctx, "be.read.post")
	return v, err
}

func (r *foRun) beWrite(ctx context.Context, key []byte, v interface{}) error {
	n := atomic.AddInt64(&r.beCalls, 1)
	ki := r.keyIndex(key)
	r.sched.yield(ctx, "be.write.pre")
	ev := foEvent{Kind: "be.write", Get: ctxGetID(ctx), Key: ki, N: n, TTL: int64(cache.TTL(ctx)), W0: time.Now().UnixNano()}
	if ki < 0 {
		ev.Info = "unknown key " + keyLabel(key)
	}
	if s, ok := tokOf(v); ok {
		ev.Val = s
	} else if v == nil {
		ev.Zero = true
	}
	ev.CtxErr = ctxErrStr(ctx)
	_, ev.Deadl = ctx.Deadline()
	if r.inject("write", n) {
		err := &backendErr{Op: "write", Key: ki, N: n}
		ev.Inject, ev.ErrKind, ev.ErrKey, ev.ErrN = true, "backend", ki, n
		r.record(ev)
		r.sched.yield(ctx, "be.write.post")
		return err
	}
	be := r.be
	if be == nil {
		return nil
	}
	err := be.Write(ctx, key, v)
	if err != nil {
		ev.ErrKind, ev.Err = "other", err.Error()
	}
	r.record(ev)
	r.sched.yield(ctx, "be.write.post")
	return err
}

func ctxErrStr(ctx context.Context) string {
	if err := ctx.Err(); err != nil {
		return err.Error()
	}
	return ""
}

// foreignExpired is an expired-item error of the non-generic kind whose item is not a string.
type foreignExpired struct{ at time.Time }

func (e foreignExpired) Error() string        { return cache.ErrExpired.Error() }
func (e foreignExpired) Is(target error) bool { return target == cache.ErrExpired } //nolint:errorlint
func (e foreignExpired) Value() interface{}   { return 12345 }
func (e foreignExpired) ExpiredAt() time.Time { return e.at }

type faultRW struct{ r *foRun }

func (w faultRW) Read(ctx context.Context, key []byte) (interface{}, error) {
	return w.r.beRead(ctx, key)
}
func (w faultRW) Write(ctx context.Context, key []byte, v interface{}) error {
	return w.r.beWrite(ctx, key, v)
}

type faultRWOf struct{ r *foRun }

func (w faultRWOf) Read(ctx context.Context, key []byte) (string, error) {
	v, err := w.r.beRead(ctx, key)
	if err != nil {
		return "", err
	}
	s, _ := v.(string)
	return s, nil
}
func (w faultRWOf) Write(ctx context.Context, key []byte, v string) error {
	return w.r.beWrite(ctx, key, v)
}

// ---- logger and stats call-outs

// hostile: logger call-outs run outside the library's critical sections; at the chosen one a concurrent ExpireAll of the
// backend takes effect (an operator flushing the cache while a Get is in progress).
func (r *foRun) hostile() {
	if r.hostileAt <= 0 || atomic.AddInt64(&r.calloutN, 1) != r.hostileAt {
		return
	}
	if be := r.be; be != nil {
		be.ExpireAll(bg)
		r.record(foEvent{Kind: "hostile.expireall", Key: -1})
	}
}

func (r *foRun) logFn(level string) func(ctx context.Context, msg string, kv ...interface{}) {
	return func(ctx context.Context, msg string, kv ...interface{}) {
		r.hostile()
		if !foYieldMsgs[msg] {
			// reads of the failure cache log outside any lock: a yield point right after the failure-cache lookup
			if msg == "cache miss" || msg == "cache hit" || msg == "cache key expired" {
				for i := 0; i+1 < len(kv); i += 2 {
					if k, ok := kv[i].(string); ok && k == "name" && kv[i+1] == "err_"+r.name {
						r.sched.yield(ctx, "errors-cache:"+msg)
					}
				}
			}
			return
		}
		ki := -1
		for i := 0; i+1 < len(kv); i += 2 {
			if k, ok := kv[i].(string); ok && k == "key" {
				if kb, ok := kv[i+1].([]byte); ok {
					ki = r.keyIndex(kb)
				}
			}
		}
		r.record(foEvent{Kind: "log", Get: ctxGetID(ctx), Key: ki, Info: level + ":" + msg})
		r.sched.yield(ctx, "log:"+msg)
	}
}

type foStats struct{ r *foRun }

func (s foStats) Add(ctx context.Context, name string, inc float64, labels ...string) {
	lbl := ""
	for i := 0; i+1 < len(labels); i += 2 {
		if labels[i] == "name" {
			lbl = labels[i+1]
		}
	}
	s.r.mu.Lock()
	s.r.ledger[name+"{"+lbl+"}"] += inc
	s.r.mu.Unlock()
	if lbl == s.r.name {
		switch name {
		case cache.MetricRefreshed, cache.MetricBuild, cache.MetricFailed, cache.MetricChanged:
			s.r.record(foEvent{Kind: "stat", Get: ctxGetID(ctx), Key: -1, Info: name})
		}
		switch name {
		case cache.MetricRefreshed, cache.MetricBuild, cache.MetricFailed, cache.MetricChanged:
			s.r.sched.yield(ctx, "stat:"+name)
		}
	}
}

func (s foStats) Set(ctx context.Context, name string, v float64, labels ...string) {}

// ---- API adapters

type foIface struct {
	f     *cache.Failover
	slice bool
	ptr   func(string) *ptrVal // non-nil: values are interned pointers
}

// ptrVal is a pointer-typed cached value (memoised / singleton objects are cached like this).
type ptrVal struct{ Tok string }

var ptrPool sync.Map // token -> *ptrVal

func ptrOf(tok string) *ptrVal {
	if p, ok := ptrPool.Load(tok); ok {
		return p.(*ptrVal)
	}
	p, _ := ptrPool.LoadOrStore(tok, &ptrVal{Tok: tok})
	return p.(*ptrVal)
}

// tokOf extracts the harness token from a stored value (plain string, or the non-comparable slice form).
func tokOf(v interface{}) (string, bool) {
	switch x := v.(type) {
	case string:
		return x, true
	case ncVal:
		return x[0], true
	case *ptrVal:
		if x != nil {
			return x.Tok, true
		}
	}
	return "", false
}

func (a foIface) Get(ctx context.Context, key []byte, build func(ctx context.Context) (string, error)) (string, bool, error) {
	v, err := a.f.Get(ctx, key, func(ctx context.Context) (interface{}, error) {
		s, err := build(ctx)
		if err != nil {
			return nil, err
		}
		if s == "" {
			return nil, nil // the builder produced a nil value
		}
		if a.slice {
			return ncVal{s}, nil
		}
		if a.ptr != nil {
			return a.ptr(s), nil
		}
		return s, nil
	})
	if v == nil {
		return "", true, err
	}
	if s, ok := tokOf(v); ok {
		return s, s == "", err
	}
	return fmt.Sprintf("%#v", v), false, err
}
func (a foIface) LockedKeys() []string { return a.f.VerifLockedKeys() }
func (a foIface) HasErrors() bool      { return a.f.Errors != nil }
func (a foIface) ErrorsWrite(ctx context.Context, key []byte, err error) {
	_ = a.f.Errors.Write(ctx, key, err)
}
func (a foIface) ErrorsExpireAll() {
	if a.f.Errors != nil {
		a.f.Errors.ExpireAll(bg)
	}
}
func (a foIface) ErrorsDeleteAll() {
	if a.f.Errors != nil {
		a.f.Errors.DeleteAll(bg)
	}
}
func (a foIface) ErrorsWalk(fn func(key []byte, err error, exp time.Time)) {
	if a.f.Errors == nil {
		return
	}
	a.f.Errors.Walk(func(e cache.Entry) error {
		er, _ := e.Value().(error)
		fn(e.Key(), er, e.ExpireAt())
		return nil
	})
}

type foOf struct{ f *cache.FailoverOf[string] }

func (a foOf) Get(ctx context.Context, key []byte, build func(ctx context.Context) (string, error)) (string, bool, error) {
	v, err := a.f.Get(ctx, key, build)
	return v, v == "", err
}
func (a foOf) LockedKeys() []string { return a.f.VerifLockedKeys() }
func (a foOf) HasErrors() bool      { return a.f.Errors != nil }
func (a foOf) ErrorsWrite(ctx context.Context, key []byte, err error) {
	_ = a.f.Errors.Write(ctx, key, err)
}
func (a foOf) ErrorsExpireAll() {
	if a.f.Errors != nil {
		a.f.Errors.ExpireAll(bg)
	}
}
func (a foOf) ErrorsDeleteAll() {
	if a.f.Errors != nil {
		a.f.Errors.DeleteAll(bg)
	}
}
func (a foOf) ErrorsWalk(fn func(key []byte, err error, exp time.Time)) {
	if a.f.Errors == nil {
		return
	}
	a.f.Errors.Walk(func(e cache.EntryOf[error]) error {
		fn(e.Key(), e.Value(), e.ExpireAt())
		return nil
	})
}

// ---- construction

func newFoRun(cfg foConfig, keys [][]byte, sc *sched) *foRun {
	r := &foRun{cfg: cfg, keys: keys, kidx: map[string]int{}, sched: sc, name: "fo",
		t0: time.Now(), active: map[int]int{}, buildCount: map[int]int{}, ledger: map[string]float64{}, faultAt: -1, prepop: map[int]string{}}
	for i, k := range keys {
		r.kidx[string(k)] = i
	}
	st := foStats{r}
	r.be = newBackend(cfg.BackendKind, cache.Config{Name: "fo", Stats: st, TimeToLive: cfg.BackendTTL})
	logger := cache.NewLogger(r.logFn("error"), r.logFn("warn"), r.logFn("important"), r.logFn("debug"))
	if cfg.API == "FailoverOf" {
		f := cache.NewFailoverOf[string](cache.FailoverConfigOf[string]{
			Name: "fo", Backend: faultRWOf{r}, FailedUpdateTTL: cfg.FailedUpdateTTL, UpdateTTL: cfg.UpdateTTL,
			SyncUpdate: cfg.SyncUpdate, SyncRead: cfg.SyncRead, MaxStaleness: cfg.MaxStaleness, FailHard: cfg.FailHard,
			Logger: logger, Stats: st, ObserveMutability: cfg.Observe,
		}.Use)
		r.fo = foOf{f}
	} else {
		f := cache.NewFailover(cache.FailoverConfig{
			Name: "fo", Backend: faultRW{r}, FailedUpdateTTL: cfg.FailedUpdateTTL, UpdateTTL: cfg.UpdateTTL,
			SyncUpdate: cfg.SyncUpdate, SyncRead: cfg.SyncRead, MaxStaleness: cfg.MaxStaleness, FailHard: cfg.FailHard,
			Logger: logger, Stats: st, ObserveMutability: cfg.Observe,
		}.Use)
		fi := foIface{f: f, slice: cfg.SliceVals}
		if cfg.PtrVals {
			fi.ptr = ptrOf
		}
		r.fo = fi
	}
	sc.lockedFn = r.fo.LockedKeys
	r.script = func(int, int) buildOutcome { return buildOutcome{OK: true} }
	return r
}

func (r *foRun) token(key int, src byte) string {
	n := atomic.AddInt64(&r.tokN, 1)
	return fmt.Sprintf("k%d/%c/%d", key, src, n)
}

// prepopulate stores a harness token directly in the real backend (not through the wrapper).
// state: "fresh" (+1h), "stale" (expired a few seconds..1min ago), "toostale" (expired 2h..3h ago).
func (r *foRun) prepopulate(rng *rand.Rand, key int, state string) string {
	tok := r.token(key, 'p')
	var ttl time.Duration
	switch state {
	case "fresh":
		ttl = time.Hour
	case "stale":
		ttl = -time.Second - time.Duration(rng.Int63n(int64(time.Minute)))
	case "toostale":
		ttl = -2*time.Hour - time.Duration(rng.Int63n(int64(time.Hour)))
	default:
		panic("state " + state)
	}
	var stored interface{} = tok
	if r.cfg.SliceVals {
		stored = ncVal{tok}
	}
	if r.cfg.PtrVals {
		stored = ptrOf(tok)
	}
	if err := r.be.Write(cache.WithTTL(bg, ttl, false), clone(r.keys[key]), stored); err != nil {
		panic(err)
	}
	r.mu.Lock()
	r.prepop[key] = tok
	r.mu.Unlock()
	r.record(foEvent{Kind: "prepop", Key: key, Val: tok, Info: state})
	return tok
}

// primeFailure stores a build error in the failure cache, as a failed build would.
func (r *foRun) primeFailure(key int) *buildErr {
	e := &buildErr{Key: key, N: -atomic.AddInt64(&r.tokN, 1)}
	r.fo.ErrorsWrite(bg, clone(r.keys[key]), e)
	r.record(foEvent{Kind: "prime.failure", Key: key, ErrKind: "build", ErrKey: key, ErrN: e.N})
	return e
}

// ---- builder and Get

func (r *foRun) makeBuilder(getID, key int, callerGID int64) func(ctx context.Context) (string, error) {
	return func(ctx context.Context) (string, error) {
		n := atomic.AddInt64(&r.buildN, 1)
		r.mu.Lock()
		r.active[key]++
		overlap := r.active[key] > 1
		inv := r.buildCount[key]
		r.buildCount[key]++
		if r.captured == nil {
			r.captured = map[int]context.Context{}
		}
		if r.captured[key] == nil {
			r.captured[key] = ctx
		}
		r.mu.Unlock()
		ev := foEvent{Kind: "build.enter", Get: getID, Key: key, N: n, TTL: int64(cache.TTL(ctx)), CtxErr: ctxErrStr(ctx), CtxGet: ctxGetID(ctx), Skip: cache.SkipRead(ctx)}
		_, ev.Deadl = ctx.Deadline()
		if d := ctx.Done(); d != nil {
			select {
			case <-d:
				ev.Done = true
			default:
			}
		}
		ev.BG = curGID() != callerGID
		seq := r.record(ev)
		if overlap {
			r.mu.Lock()
			r.overlaps = append(r.overlaps, fmt.Sprintf("key %d: build n=%d (get %d) entered at seq %d while another build for the key was active", key, n, getID, seq))
			r.mu.Unlock()
		}
		if r.gateBG != nil && ev.BG {
			r.bgEntered <- getID
			<-r.gateBG
			if key == 0 && r.gate0 != nil {
				<-r.gate0
			}
		}
		r.sched.yield(ctx, "build.enter")
		out := r.script(key, inv)
		applied := ""
		for _, u := range out.TTLs {
			cache.WithTTL(ctx, u.TTL, u.Update)
			applied += fmt.Sprintf("%d:%v,", int64(u.TTL), u.Update)
		}
		if out.Sleep > 0 {
			time.Sleep(out.Sleep)
		}
		if r.holdMax > 0 {
			time.Sleep(time.Duration(mix64(uint64(n)*77+uint64(r.faultAt+3)) % uint64(r.holdMax+1)))
		}
		r.sched.yield(ctx, "build.exit")
		// observe the context again at exit (a background build must still not be cancelled)
		ex := foEvent{Kind: "build.exit", Get: getID, Key: key, N: n, TTL: int64(cache.TTL(ctx)), CtxErr: ctxErrStr(ctx), Info: applied, BG: ev.BG}
		var tok string
		var err error
		r.mu.Lock()
		same := r.prepop[key]
		r.mu.Unlock()
		if out.OK && out.Nil {
			ex.Note = "nil-value"
		} else if out.OK && out.Same && same != "" {
			tok = same
			ex.Val = tok
			ex.Note = "same-as-stale"
		} else if out.OK {
			tok = fmt.Sprintf("k%d/b/%d", key, n)
			ex.Val = tok
		} else {
			err = &buildErr{Key: key, N: n, Ctx: out.CtxErr, NF: out.NotFound && !out.CtxErr}
			ex.ErrKind, ex.ErrKey, ex.ErrN = "build", key, n
		}
		r.mu.Lock()
		r.active[key]--
		r.mu.Unlock()
		r.record(ex)
		return tok, err
	}
}

func (s *sched) curTask() *task {
	if atomic.LoadInt32(&s.steered) == 0 {
		return nil
	}
	gid := curGID()
	s.mu.Lock()
	t := s.byGid[gid]
	s.mu.Unlock()
	return t
}

func (r *foRun) doGet(taskID int, spec getSpec) {
	getID := int(atomic.AddInt64(&r.getN, 1))
	keyBuf := clone(r.keys[spec.Key])
	base := context.Context(bg)
	if spec.ReuseBuildCtx {
		r.mu.Lock()
		if c := r.captured[spec.Key]; c != nil {
			base = c
		}
		r.mu.Unlock()
	}
	ctx := context.WithValue(base, foCtxKey{}, getID)
	var cancel context.CancelFunc
	if spec.Deadline {
		ctx, cancel = context.WithTimeout(ctx, time.Hour)
	} else {
		ctx, cancel = context.WithCancel(ctx)
	}
	if spec.CallerTTL != nil {
		ctx = cache.WithTTL(ctx, *spec.CallerTTL, false)
	}
	if spec.SkipRead {
		ctx = cache.WithSkipRead(ctx)
	}
	if spec.PreCancel {
		cancel()
	}
	info := ""
	if spec.Cancel {
		info += "cancel-after;"
	}
	if spec.PreCancel {
		info += "cancel-before;"
	}
	if spec.Mutate != 0 {
		info += fmt.Sprintf("mutate=%d->%d;", spec.Mutate, spec.MutateTo)
	}
	ce := foEvent{Kind: "get.call", Task: taskID, Get: getID, Key: spec.Key, Skip: spec.SkipRead, Info: info}
	if spec.CallerTTL != nil {
		ce.TTL = int64(*spec.CallerTTL)
		ce.Info += "callerttl;"
	}
	r.record(ce)
	r.sched.yield(ctx, "get.call")
	v, zero, err := r.fo.Get(ctx, keyBuf, r.makeBuilder(getID, spec.Key, curGID()))
	ev := foEvent{Kind: "get.ret", Task: taskID, Get: getID, Key: spec.Key, Val: v, Zero: zero, TTL: int64(cache.TTL(ctx))}
	ev.ErrKind, ev.ErrKey, ev.ErrN = classifyErr(err)
	if err != nil {
		ev.Err = err.Error()
	}
	r.record(ev)
	if spec.Cancel {
		cancel()
	}
	switch spec.Mutate {
	case 1:
		copy(keyBuf, r.keys[spec.MutateTo])
	case 2:
		for i := range keyBuf {
			keyBuf[i] ^= 0x77
		}
	}
	r.sched.yield(ctx, "get.ret")
	if !spec.Cancel && !spec.PreCancel {
		_ = cancel // left uncancelled on purpose when the spec does not ask for it; released with the run
	}
}

// execute runs the worker scripts to quiescence. Returns "", "deadlock" or "inconclusive".
func (r *foRun) execute(scripts [][]getSpec) string {
	if atomic.LoadInt32(&r.sched.steered) == 1 {
		for i, sc := range scripts {
			i, sc := i, sc
			r.sched.spawn(i, func() {
				for _, sp := range sc {
					r.doGet(i, sp)
				}
			})
		}
		r.sched.run()
		out := r.sched.outcome
		r.sched.abandon()
		return out
	}
	var wg sync.WaitGroup
	for i, sc := range scripts {
		wg.Add(1)
		go func(i int, sc []getSpec) {
			defer wg.Done()
			for _, sp := range sc {
				r.doGet(i, sp)
			}
		}(i, sc)
	}
	done := make(chan struct{})
	go func() { wg.Wait(); close(done) }()
	select {
	case <-done:
	case <-time.After(30 * time.Second):
		// bounded progress: are workers stuck in the library while no builder is active?
		r.mu.Lock()
		act := 0
		for _, a := range r.active {
			act += a
		}
		r.mu.Unlock()
		d := dumpGoroutines()
		stuck := 0
		var sb strings.Builder
		for _, g := range d {
			if strings.Contains(g.stack, "waitForValue") {
				stuck++
				sb.WriteString(g.stack + "\n\n")
			}
		}
		if act == 0 && stuck > 0 {
			r.sched.dumpText = sb.String()
			return "deadlock"
		}
		return "inconclusive"
	}
	// background builds: wait (bounded) until no key lock remains
	for dl := time.Now().Add(2 * time.Second); time.Now().Before(dl); {
		if len(r.fo.LockedKeys()) == 0 {
			break
		}
		time.Sleep(200 * time.Microsecond)
	}
	return ""
}

// snapshotLog returns a copy of the event log.
func (r *foRun) snapshotLog() []foEvent {
	r.mu.Lock()
	l := append([]foEvent(nil), r.log...)
	r.mu.Unlock()
	return l
}

// release drops the references to the instances under test. The backends' background goroutines reference the harness stats
// tracker, which references this run: without breaking the cycle the cache finalizers never run and janitors pile up.
func (r *foRun) release() {
	r.be, r.fo = nil, nil
	r.sched.lockedFn = nil
}
