package main

import (
	"fmt"
	"math/rand"
	"os"
	"runtime"
	"time"
)

// Engines C01, C02, C04 over the generic Failover case generator.

var foChildEnv = []string{"GOMAXPROCS=4"}

func foSteeredShare(i int) bool { return i%8 != 7 } // 1/8 of the cases run in free mode

func init() {
	register(&Engine{
		ID:       "C01",
		Batches:  func(string) int { return 16 },
		ChildEnv: foChildEnv,
		Run:      func(b *Batch) { runFoGeneric(b, "C01") },
		Rule: "seeded Failover/FailoverOf cases: 2..6 workers x 1..3 Gets over 1..3 keys (incl. xxhash64-colliding keys), entry state {absent,fresh,stale,too-stale}, config product {SyncUpdate,SyncRead,FailHard,MaxStaleness 0/1h,FailedUpdateTTL default/-1/1h}, " +
			"builder outcome scripts, backend fault injection, caller misbehaviour after return; 7/8 run under the steered executor (one task at a time, seeded random/PCT/run-to-block choice at every call-out), 1/8 free-running with real parallelism and seeded delays; " +
			"online monitor of builder [entry,exit] intervals per key; distinct_nontrivial = distinct (config, schedule signature) of runs in which >=2 Gets for a key were in flight while a builder for it was active",
		Required:    []string{"runs.steered", "runs.free", "runs.contended", "family.observe_mutability", "builds", "bg.builds", "api.Failover", "api.FailoverOf", "family.reused_build_context", "mass.drain_with_one_build_running"},
		Assumptions: []string{"builder intervals are delimited by harness code (entry/exit events under one mutex)", "steered executor relies on runtime.Stack status strings; malfunction yields 'inconclusive', never a verdict"},
		Timeout:     func(string) time.Duration { return 45 * time.Minute },
	})
	register(&Engine{
		ID:       "C02",
		Batches:  func(string) int { return 16 },
		ChildEnv: foChildEnv,
		Run:      func(b *Batch) { runFoGeneric(b, "C02") },
		Rule: "same seeded Failover/FailoverOf cases as C01 plus backend Read/Write failures injected at a seeded call index (and, per case family, at every call index in turn); unique tokens for every pre-populated/built value and every builder/backend error; " +
			"offline oracle over the event log: every (v,nil) is a token of the same key pre-populated or built and finished before the Get returned, every error is a builder error of the same key or a backend error injected on that key; " +
			"distinct_nontrivial = distinct (config, schedule signature) of runs with a waiter, an early-return path or an injected fault",
		Required:    []string{"runs.steered", "runs.free", "gets", "waiters.served", "faults.injected", "results.stale_served", "results.error", "api.Failover", "api.FailoverOf", "family.foreign_expired_item_backend", "family.hostile_expireall_at_callout"},
		Assumptions: []string{"tokens are unique per run; zero values are never produced by the harness"},
		Timeout:     func(string) time.Duration { return 45 * time.Minute },
	})
	register(&Engine{
		ID:       "C04",
		Batches:  func(string) int { return 16 },
		ChildEnv: foChildEnv,
		Run:      func(b *Batch) { runFoGeneric(b, "C04") },
		Rule: "same seeded cases with caller misbehaviour after return (cancel ctx, overwrite key buffer with another live key / noise), builder failures and backend write rejections; liveness restated as logical deadlock freedom under the steered executor " +
			"(no task runnable, no builder active, a Get blocked in the library) and bounded progress in free mode; at quiescence no key lock remains (hook + black-box follow-up Gets that must rebuild), every build result was written under the key it was requested for; " +
			"distinct_nontrivial = distinct (config, schedule signature) of runs with a background build or a waiter",
		Required:    []string{"runs.steered", "runs.free", "followups", "mass.runs", "mass.runs_over_10000_keys", "mass.followups", "rearm.cases", "rearm.rejected_gets", "bg.builds", "misbehaviour.mutate", "misbehaviour.cancel", "api.Failover", "api.FailoverOf", "mass.background_probes_after_burst"},
		Assumptions: []string{"'Get always completes' is checked as logical deadlock freedom on the explored schedules (finite runs cannot decide unbounded liveness)"},
		Timeout:     func(string) time.Duration { return 45 * time.Minute },
	})
}

func runFoGeneric(b *Batch, prop string) {
	n := b.Pick(map[string]int{"C01": 4800, "C02": 1600, "C04": 4800}[prop], map[string]int{"C01": 960000, "C02": 240000, "C04": 960000}[prop]) / b.NBatches
	for i := 0; i < n; i++ {
		if b.Skip(i) {
			continue
		}
		rng := rand.New(rand.NewSource(b.CaseSeed(i)))
		steered := foSteeredShare(i)
		o := foGenOpts{steered: steered, maxWorkers: 6, mutate: prop == "C04" || rng.Intn(4) == 0, faults: prop != "C01" || rng.Intn(3) == 0}
		if !steered {
			o.maxWorkers = 12
		}
		c := genFoCase(rng, o)
		if prop == "C01" && i%6 == 5 {
			// buffer-reuse family: a background build of key A is in flight while its caller rewrites the key buffer to key B,
			// and other callers keep building B - a release of the wrong lock lets two builds of B overlap
			c.Cfg.SyncUpdate = false
			c.CfgS = c.Cfg.String()
			c.NKeys, c.Collide = 2, rng.Intn(3) == 0
			c.States = []string{"stale", []string{"absent", "stale", "absent"}[rng.Intn(3)]}
			c.Primed = []bool{false, false}
			c.FaultAt = -1
			c.FailPct = []int{0, 0, 30}[rng.Intn(3)]
			c.Scripts = [][]getSpec{{{Key: 0, Mutate: 1, MutateTo: 1}}}
			if rng.Intn(2) == 0 {
				c.Scripts[0] = append(c.Scripts[0], getSpec{Key: 1, SkipRead: true})
			}
			nw := 2 + rng.Intn(3)
			for w := 0; w < nw; w++ {
				var sc []getSpec
				for g := 0; g < 2+rng.Intn(2); g++ {
					sc = append(sc, getSpec{Key: 1, SkipRead: rng.Intn(2) == 0})
				}
				c.Scripts = append(c.Scripts, sc)
			}
			b.R.Count("family.buffer_reuse", 1)
		}
		if prop == "C01" && i%4 == 1 {
			// ObserveMutability adds work (and call-outs) between the backend write of a build and the release of its key
			c.Cfg.Observe = true
			c.Cfg.SliceVals = c.Cfg.API == "Failover" && rng.Intn(2) == 0
			c.CfgS = c.Cfg.String()
			b.R.Count("family.observe_mutability", 1)
		}
		if prop == "C01" && i%12 == 2 {
			// contexts kept from an earlier build of the key are used for later forced Gets: no context content may let a
			// caller past the key lock
			c.NKeys, c.Collide = 1, false
			c.States = []string{[]string{"stale", "absent"}[rng.Intn(2)]}
			c.Primed = []bool{false}
			c.FaultAt = -1
			c.Scripts = [][]getSpec{{{Key: 0}, {Key: 0, SkipRead: true, ReuseBuildCtx: true}}}
			for w := 0; w < 2+rng.Intn(3); w++ {
				c.Scripts = append(c.Scripts, []getSpec{{Key: 0, SkipRead: true, ReuseBuildCtx: true}, {Key: 0, SkipRead: rng.Intn(2) == 0, ReuseBuildCtx: true}})
			}
			b.R.Count("family.reused_build_context", 1)
		}
		if prop == "C01" && i%10 == 3 {
			c.NilValues = true // builders that legitimately return a nil / zero value (values are not judged by C01)
			b.R.Count("family.nil_values", 1)
		}
		if prop == "C02" && i%12 == 5 {
			c.Cfg.BareExpired = true // a third-party style backend: expiry without the stale item (allowed by the ErrExpired doc)
			c.CfgS = c.Cfg.String()
			b.R.Count("family.bare_expired_backend", 1)
		}
		if prop == "C02" && i%12 == 7 && c.Cfg.API == "FailoverOf" {
			c.Cfg.ForeignExpired = true
			c.CfgS = c.Cfg.String()
			b.R.Count("family.foreign_expired_item_backend", 1)
		}
		if prop == "C02" && i%6 == 4 {
			// an entry expired beyond MaxStaleness gets its expiry moved to "now" by a foreign ExpireAll while a Get is deciding
			c.HostileExpireAllAt = int64(1 + rng.Intn(6))
			c.Cfg.MaxStaleness = time.Hour
			c.CfgS = c.Cfg.String()
			c.States[0] = "toostale"
			b.R.Count("family.hostile_expireall_at_callout", 1)
		}
		if prop == "C02" && i%3 == 0 {
			// fault enumeration: the same case is re-run with a backend failure injected at every call index in turn
			c.FaultAt = -1
			c.States[0] = []string{"stale", "stale", "toostale", "absent"}[rng.Intn(4)]
			if c.States[0] == "toostale" && c.Cfg.MaxStaleness == 0 {
				c.States[0] = "stale"
			}
			x0 := foJudge(b, i, prop, c)
			nc := int(x0.run.beCalls)
			if nc > 40 {
				nc = 40
			}
			for f := 1; f <= nc; f++ {
				cc := *c
				cc.FaultAt, cc.FaultOps = int64(f), "both"
				foJudge(b, i, prop, &cc)
				b.R.Count("fault_enumeration.runs", 1)
			}
			continue
		}
		foJudge(b, i, prop, c)
		collectGarbage(i)
	}
	if prop == "C01" && b.Index < 2 && !b.Skip(n+16*1000) {
		c04Mass(b, "C01", n+16*1000, true, b.Index*2) // batch 0: Failover, batch 1: FailoverOf
	}
	if prop == "C04" {
		nm := b.Pick(16, 320) / b.NBatches
		if nm == 0 {
			nm = 1
		}
		for i := 0; i < nm; i++ {
			if !b.Skip(n + i) {
				c04Mass(b, "C04", n+i, false, -1)
			}
			if i == 0 && b.Index == 0 && !b.Skip(n+16*1000) {
				c04Mass(b, "C04", n+16*1000, true, -1) // the big variant, once per run
			}
			if !b.Skip(n + 1000 + i) {
				c04RearmWindow(b, n+1000+i)
			}
		}
	}
}

// c04Mass: mass expiration. Hundreds of distinct stale keys of one Failover are requested at once, so that hundreds of
// background builds are in flight at the same moment (builders parked at a gate). After the gate opens and everything has
// finished, no key lock may remain and every key must be buildable again.
func c04Mass(b *Batch, prop string, idx int, huge bool, pairing int) {
	rng := rand.New(rand.NewSource(b.CaseSeed(idx)))
	p := foPairings[rng.Intn(3)]
	if pairing >= 0 {
		p = foPairings[pairing]
	}
	n := 280 + rng.Intn(320)
	if huge {
		n = 10200 + rng.Intn(6000)
		b.R.Count("mass.runs_over_10000_keys", 1)
	}
	keys := make([][]byte, n)
	for i := range keys {
		keys[i] = []byte(fmt.Sprintf("mass-%d", i))
	}
	cfg := foConfig{API: p[0], BackendKind: p[1], MaxStaleness: time.Hour}
	sc := newSched(false, "random", rng)
	sc.delayProb = 0
	r := newFoRun(cfg, keys, sc)
	defer r.release()
	r.gateBG = make(chan struct{})
	r.bgEntered = make(chan int, n)
	stale := make([]string, n)
	for k := range keys {
		stale[k] = r.prepopulate(rng, k, "stale")
	}
	b.R.Eval()
	fail := func(what, msg string) {
		b.R.Violate(b, idx, prop+":"+p[0]+":mass:"+what, what+": "+msg+fmt.Sprintf(" [%s, %d keys]", cfg.String(), n), map[string]interface{}{"keys": n, "pairing": p})
	}
	ran := make(chan struct{})
	go func() {
		for k := range keys {
			r.doGet(0, getSpec{Key: k})
		}
		close(ran)
	}()
	select {
	case <-ran:
	case <-time.After(30 * time.Second):
		fail("get-blocked", fmt.Sprintf("Gets of stale keys did not return while their background builds were parked; locks: %d", len(r.fo.LockedKeys())))
		close(r.gateBG)
		return
	}
	inflight := 0
	for dl := time.After(5 * time.Second); inflight < n; {
		select {
		case <-r.bgEntered:
			inflight++
			continue
		case <-dl:
		}
		break
	}
	b.R.Count("mass.runs", 1)
	b.R.Count("mass.background_builds_in_flight_max", int64(inflight))
	b.R.Nontrivial(fmt.Sprintf("mass/%s/%s/inflight>=%d", p[0], p[1], inflight/100*100))
	if huge {
		// the burst drains while one build (key 0) is still running; a forced Get of that key must wait for it, not build beside it
		r.gate0 = make(chan struct{})
		close(r.gateBG)
		for dl := time.Now().Add(20 * time.Second); time.Now().Before(dl) && len(r.fo.LockedKeys()) > 1; {
			time.Sleep(200 * time.Microsecond)
		}
		late := make(chan struct{})
		go func() { r.doGet(3, getSpec{Key: 0, SkipRead: true}); close(late) }()
		time.Sleep(20 * time.Millisecond)
		close(r.gate0)
		select {
		case <-late:
		case <-time.After(30 * time.Second):
			fail("late-get-blocked", "forced Get of the key whose build outlived the burst never returned")
			return
		}
		r.mu.Lock()
		ov := append([]string(nil), r.overlaps...)
		r.mu.Unlock()
		b.R.Count("mass.drain_with_one_build_running", 1)
		if len(ov) > 0 {
			fail("overlap-after-drain", fmt.Sprintf("after %d simultaneous builds drained: %s", inflight, ov[0]))
		}
	} else {
		close(r.gateBG)
	}
	for dl := time.Now().Add(10 * time.Second); time.Now().Before(dl); {
		r.mu.Lock()
		act := 0
		for _, a := range r.active {
			act += a
		}
		r.mu.Unlock()
		if act == 0 && len(r.fo.LockedKeys()) == 0 {
			break
		}
		time.Sleep(200 * time.Microsecond)
	}
	if lk := r.fo.LockedKeys(); len(lk) != 0 {
		fail("lock-leaked", fmt.Sprintf("%d key lock(s) left after all Gets and background builds finished (%d builds were in flight together), e.g. %q", len(lk), inflight, lk[0]))
		return // later Gets of those keys would only wait for the watchdog
	}
	for _, e := range r.snapshotLog() {
		if e.Kind == "get.ret" && e.Task == 0 && (e.Err != "" || e.Val != stale[e.Key]) {
			fail("stale-not-served", fmt.Sprintf("Get of key %d returned (%q,%q), want the stale value", e.Key, e.Val, e.Err))
			break
		}
	}
	// every key is buildable again: entry removed, a lone Get has to build synchronously
	for k := range keys {
		_ = r.be.Delete(bg, keys[k])
	}
	r.gateBG = nil
	before := len(r.snapshotLog())
	again := make(chan struct{})
	go func() {
		for k := range keys {
			r.doGet(1, getSpec{Key: k})
		}
		close(again)
	}()
	select {
	case <-again:
	case <-time.After(30 * time.Second):
		fail("later-get-blocked", fmt.Sprintf("a later lone Get of a key never returned; locks left: %d", len(r.fo.LockedKeys())))
		return
	}
	built := map[int]bool{}
	for _, e := range r.snapshotLog()[before:] {
		if e.Kind == "build.enter" {
			built[e.Key] = true
		}
	}
	b.R.Count("mass.followups", int64(len(built)))
	if len(built) != n {
		fail("later-get-did-not-build", fmt.Sprintf("%d of %d keys were not built again by a later Get on an absent entry", n-len(built), n))
	}
	// ... and the background path works again too: stale entries, one Get each, the (idle) instance starts a background build
	before = len(r.snapshotLog())
	probe := 12
	for k := 0; k < probe; k++ {
		r.prepopulate(rng, k, "stale")
		r.doGet(2, getSpec{Key: k})
	}
	for dl := time.Now().Add(10 * time.Second); time.Now().Before(dl) && len(r.fo.LockedKeys()) > 0; {
		time.Sleep(200 * time.Microsecond)
	}
	bgBuilt := map[int]bool{}
	for _, e := range r.snapshotLog()[before:] {
		if e.Kind == "build.enter" {
			bgBuilt[e.Key] = true
		}
	}
	b.R.Count("mass.background_probes_after_burst", int64(len(bgBuilt)))
	if len(bgBuilt) != probe {
		fail("no-background-build-after-burst", fmt.Sprintf("after the burst of %d simultaneous background builds had drained, %d of %d stale keys requested on the idle instance did not get a (background) build", inflight, probe-len(bgBuilt), probe))
	}
}

func foJudge(b *Batch, idx int, prop string, c *foCase) *foExec {
	x := c.run()
	b.R.Eval()
	if c.Steered {
		b.R.Count("runs.steered", 1)
	} else {
		b.R.Count("runs.free", 1)
	}
	b.R.Count("api."+c.Cfg.API, 1)
	if x.outcome == "inconclusive" {
		b.R.Inconcl(fmt.Sprintf("%s case %d: executor watchdog", prop, idx))
		x.run.release()
		return x
	}
	var nBuilds, nBG, nGets, nWait, nInj, nStale, nErr, nMut, nCancel int64
	for _, e := range x.log {
		switch e.Kind {
		case "build.enter":
			nBuilds++
			if e.BG {
				nBG++
			}
		case "get.call":
			nGets++
			if len(e.Info) > 0 {
				if containsAny(e.Info, "mutate") {
					nMut++
				}
				if containsAny(e.Info, "cancel") {
					nCancel++
				}
			}
		case "get.ret":
			if e.ErrKind != "" {
				nErr++
			} else if containsAny(e.Val, "/p/") {
				nStale++
			}
		case "log":
			if containsAny(e.Info, "waiting for cache value") {
				nWait++
			}
		case "be.read", "be.write":
			if e.Inject {
				nInj++
			}
		}
	}
	cont, _ := contended(x.log)
	b.R.Count("builds", nBuilds)
	b.R.Count("bg.builds", nBG)
	b.R.Count("gets", nGets)
	b.R.Count("waiters.served", nWait)
	b.R.Count("faults.injected", nInj)
	b.R.Count("results.stale_served", nStale)
	b.R.Count("results.error", nErr)
	b.R.Count("misbehaviour.mutate", nMut)
	b.R.Count("misbehaviour.cancel", nCancel)
	b.R.Count("sched.steps", int64(x.run.sched.steps))
	b.R.Count("sched.dumps", int64(x.run.sched.dumps))
	if cont {
		b.R.Count("runs.contended", 1)
	}
	sig := c.CfgS + "/" + x.signature()
	var findings []foFinding
	switch prop {
	case "C01":
		findings = oracleOverlap(x.run)
		if cont {
			b.R.Nontrivial(sig)
		}
	case "C02":
		findings = oracleProvenance(x.run, x.log)
		if nWait > 0 || nInj > 0 || nErr > 0 {
			b.R.Nontrivial(sig)
		}
	case "C04":
		findings = oracleCompletion(x.run, x.outcome, x.log, x.used, c.Collide)
		if c.Steered && c.Cfg.SyncRead && x.outcome == "" {
			findings = append(findings, oracleNoLostUpdate(x.log)...)
			b.R.Count("runs.lost_update_checked", 1)
		}
		b.R.Count("followups", int64(len(x.used)))
		if nBG > 0 || nWait > 0 {
			b.R.Nontrivial(sig)
		}
	}
	if x.outcome == "deadlock" && prop != "C04" {
		b.R.Count("runs.deadlocked_reported_by_C04", 1)
	}
	seen := map[string]bool{}
	for _, f := range findings {
		if seen[f.Sig] {
			continue
		}
		seen[f.Sig] = true
		b.R.Violate(b, idx, prop+":"+c.Cfg.API+":"+f.Sig, f.Msg+" ["+c.CfgS+"]", x.witness(c))
	}
	if idx == 0 && b.Index == 0 {
		w := x.witness(c)
		b.R.Sample(w)
	}
	x.run.release()
	return x
}

func containsAny(s string, subs ...string) bool {
	for _, sub := range subs {
		for i := 0; i+len(sub) <= len(s); i++ {
			if s[i:i+len(sub)] == sub {
				return true
			}
		}
	}
	return false
}

// collectGarbage lets finalizers stop the janitor goroutines of finished cases; otherwise goroutine dumps of the steered
// executor get slower and slower in long batches.
func collectGarbage(i int) {
	if i%100 == 99 {
		runtime.GC()
	}
	if i%500 == 499 && os.Getenv("VH_PROGRESS") == "1" {
		fmt.Fprintf(os.Stderr, "progress: case %d goroutines=%d t=%s\n", i, runtime.NumGoroutine(), time.Now().Format("15:04:05.000"))
	}
}
