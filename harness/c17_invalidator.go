package main

import (
	"context"
	"errors"
	"fmt"
	"math/rand"
	"sort"
	"strings"
	"sync"
	"sync/atomic"
	"time"

	"github.com/bool64/cache"
)

// C17: Invalidator runs all callbacks, at most once per SkipInterval.

type c17CallID struct{}

type c17CancelKey struct{}

type c17LogEntry struct {
	call int
	cb   int
	at   time.Time
	end  time.Time
}

type c17Call struct {
	id       int
	c, r     time.Time
	err      error
	phase    int
	skip     time.Duration // SkipInterval in force when the call was made
}

func init() {
	register(&Engine{
		ID:      "C17",
		Batches: func(tier string) int { return 16 },
		Run:     runC17,
		Rule: "seeded cases: SkipInterval in {negative,1ms,20ms,200ms,default}, 0..5 callbacks (nil and empty slice), phases of concurrent bursts (1..32 callers) and sequential calls separated by sleeps of {0, Skip/2, 1.3*Skip}; " +
			"oracle over the callback log and the callers' call/return timestamps (monotonic bracketing only, never a deadline); distinct_nontrivial = distinct (interval, callbacks, phase pattern) cases with at least one accepted and one further call",
		Required:    []string{"calls.accepted", "calls.rejected", "nothing_to_invalidate", "spacing.pairs", "must_accept.checked", "burst.cases", "chain.cases", "spacing.tightened_by_previous_run", "registered_during_run.calls_checked", "panic.second_call_within_interval", "cascade.cases"},
		Assumptions: []string{"monotonic clock readings of time.Now() are consistent across goroutines"},
		Timeout:     func(string) time.Duration { return 45 * time.Minute },
	})
}

func runC17(b *Batch) {
	n := b.Pick(1600, 160000) / b.NBatches
	// cases sleep; run several concurrently inside the child
	var wg sync.WaitGroup
	sem := make(chan struct{}, 8)
	for i := 0; i < n; i++ {
		if b.Skip(i) {
			continue
		}
		wg.Add(1)
		sem <- struct{}{}
		go func(i int) {
			defer wg.Done()
			defer func() { <-sem }()
			if i%16 == 11 {
				c17Panic(b, i)
				return
			}
			if i%16 == 5 {
				c17Cascade(b, i)
				return
			}
			c17Case(b, i)
		}(i)
	}
	wg.Wait()
}

func c17Case(b *Batch, idx int) {
	rng := rand.New(rand.NewSource(b.CaseSeed(idx)))
	b.R.Eval()
	var skip time.Duration
	skipName := ""
	switch r := rng.Intn(20); {
	case r == 0:
		skip, skipName = 0, "default"
	case r < 3:
		skip, skipName = -time.Duration(1+rng.Intn(1000))*time.Millisecond, "negative"
	case r < 8:
		skip, skipName = time.Millisecond, "1ms"
	case r < 11:
		skip, skipName = 900*time.Microsecond, "900us" // below one millisecond
	case r < 15:
		skip, skipName = 20*time.Millisecond, "20ms"
	case r < 18:
		skip, skipName = 20*time.Millisecond+900*time.Microsecond, "20.9ms" // not a whole number of milliseconds
	default:
		skip, skipName = 200*time.Millisecond, "200ms"
	}
	effSkip := skip
	if skip == 0 {
		effSkip = 15 * time.Second
	}
	nCb := rng.Intn(6)
	chain := (skipName == "1ms" || skipName == "20ms") && rng.Intn(4) == 0
	if chain && nCb == 0 {
		nCb = 1
	}
	slowOnceDone := false
	registerDuringRun := chain && rng.Intn(2) == 0
	regPos := -1 // log position at which the extra callback was registered
	cbMode := "slice"
	var mu sync.Mutex
	var log []c17LogEntry
	inv := &cache.Invalidator{SkipInterval: skip}
	if nCb == 0 {
		if rng.Intn(2) == 0 {
			cbMode = "nil"
		} else {
			cbMode = "empty"
			inv.Callbacks = []func(context.Context){}
		}
	}
	for c := 0; c < nCb; c++ {
		c := c
		slow := rng.Intn(4) == 0
		inv.Callbacks = append(inv.Callbacks, func(ctx context.Context) {
			id, _ := ctx.Value(c17CallID{}).(int)
			if cf, ok := ctx.Value(c17CancelKey{}).(context.CancelFunc); ok && c == 0 {
				cf()
			}
			mu.Lock()
			log = append(log, c17LogEntry{call: id, cb: c, at: time.Now()})
			pos := len(log) - 1
			first := !slowOnceDone
			slowOnceDone = true
			mu.Unlock()
			if slow {
				time.Sleep(50 * time.Microsecond)
			}
			if chain && c == 0 && first {
				time.Sleep(effSkip*5/2 + time.Millisecond) // only the very first accepted run is slow
				if registerDuringRun {
					// register one more callback while this run holds the Invalidator's lock (callbacks run under it):
					// every call accepted afterwards, also one that has been waiting for the lock, must run it
					extra := nCb
					inv.Callbacks = append(inv.Callbacks, func(ctx context.Context) {
						id, _ := ctx.Value(c17CallID{}).(int)
						mu.Lock()
						now := time.Now()
						log = append(log, c17LogEntry{call: id, cb: extra, at: now, end: now})
						mu.Unlock()
					})
					mu.Lock()
					regPos = len(log)
					mu.Unlock()
				}
			}
			mu.Lock()
			log[pos].end = time.Now()
			mu.Unlock()
		})
	}
	var calls []*c17Call
	var cmu sync.Mutex
	nextID := 0
	doCall := func(phase int) {
		cmu.Lock()
		nextID++
		c := &c17Call{id: nextID, phase: phase, skip: effSkip}
		calls = append(calls, c)
		cmu.Unlock()
		ctx, cancel := context.WithCancel(context.WithValue(bg, c17CallID{}, c.id))
		switch c.id % 5 {
		case 1:
			cancel() // already cancelled: Invalidate does not depend on the context
		case 2:
			ctx = context.WithValue(ctx, c17CancelKey{}, cancel) // the first callback cancels it
		}
		c.c = time.Now()
		err := inv.Invalidate(ctx)
		cancel()
		c.r = time.Now()
		c.err = err
	}
	nPhases := 1 + rng.Intn(4)
	if skipName == "default" {
		nPhases = 1
	}
	pattern := ""
	hasBurst := false
	if chain {
		// X runs a slow first callback; Y arrives after SkipInterval while X is still running and waits for the lock longer
		// than SkipInterval; Z and W follow immediately after Y returned
		pattern = "chain/"
		b.R.Count("chain.cases", 1)
		var cw sync.WaitGroup
		cw.Add(2)
		go func() { defer cw.Done(); doCall(-1) }()
		go func() { defer cw.Done(); time.Sleep(effSkip * 13 / 10); doCall(-1) }()
		cw.Wait()
		doCall(-1)
		doCall(-1)
	}
	reconfigure := !chain && (skipName == "1ms" || skipName == "20ms") && rng.Intn(4) == 0
	for p := 0; p < nPhases; p++ {
		if p > 0 && reconfigure && rng.Intn(2) == 0 {
			// the exported SkipInterval is changed between two (sequential) phases: later calls are judged by the new value
			inv.Lock()
			if rng.Intn(2) == 0 {
				inv.SkipInterval = time.Hour
			} else {
				inv.SkipInterval = 3 * time.Millisecond
			}
			effSkip = inv.SkipInterval
			inv.Unlock()
			pattern += fmt.Sprintf("/skip:=%v", effSkip)
			b.R.Count("reconfigured.phases", 1)
		}
		if p > 0 {
			switch rng.Intn(3) {
			case 0:
				pattern += "/0"
			case 1:
				if effSkip > 0 && effSkip < time.Second {
					time.Sleep(effSkip / 2)
				}
				pattern += "/half"
			default:
				if effSkip > 0 && effSkip < time.Second {
					time.Sleep(effSkip + effSkip*3/10)
				} else if effSkip >= time.Second {
					time.Sleep(25 * time.Millisecond) // far below the new interval
				}
				pattern += "/full"
			}
		}
		if rng.Intn(2) == 0 {
			nc := 2 + rng.Intn(31)
			hasBurst = true
			pattern += fmt.Sprintf("B%d", nc)
			var wg sync.WaitGroup
			for g := 0; g < nc; g++ {
				wg.Add(1)
				go func() { defer wg.Done(); doCall(p) }()
			}
			wg.Wait()
		} else {
			ns := 1 + rng.Intn(3)
			pattern += fmt.Sprintf("S%d", ns)
			for s := 0; s < ns; s++ {
				doCall(p)
			}
		}
	}
	if hasBurst {
		b.R.Count("burst.cases", 1)
	}
	w := map[string]interface{}{"skip": skipName, "callbacks": nCb, "cbMode": cbMode, "pattern": pattern, "calls": len(calls)}
	fail := func(what, msg string) {
		b.R.Violate(b, idx, "C17:"+what, fmt.Sprintf("%s: %s %v", what, msg, w), w)
	}
	if idx == 0 {
		b.R.Sample(w)
	}
	byCall := map[int][]c17LogEntry{}
	for _, e := range log {
		byCall[e.call] = append(byCall[e.call], e)
	}
	if nCb == 0 {
		for _, c := range calls {
			b.R.Count("nothing_to_invalidate", 1)
			if !errors.Is(c.err, cache.ErrNothingToInvalidate) {
				fail("no-callbacks-"+cbMode, fmt.Sprintf("Invalidate with no callbacks (%s) returned %v", cbMode, c.err))
				break
			}
		}
		b.R.Nontrivial(fmt.Sprintf("%s/0/%s/%s", skipName, cbMode, pattern))
		return
	}
	var accepted []*c17Call
	for _, c := range calls {
		entries := byCall[c.id]
		switch {
		case c.err == nil:
			accepted = append(accepted, c)
			b.R.Count("calls.accepted", 1)
			wantCb := nCb
			if regPos >= 0 && len(entries) > 0 {
				// position of this call's first entry in the global log
				for pos, le := range log {
					if le.call == c.id {
						if pos >= regPos {
							wantCb = nCb + 1
							b.R.Count("registered_during_run.calls_checked", 1)
						}
						break
					}
				}
			}
			ok := len(entries) == wantCb
			for i, e := range entries {
				if e.cb != i {
					ok = false
				}
			}
			if !ok {
				var got []int
				for _, e := range entries {
					got = append(got, e.cb)
				}
				fail("callbacks", fmt.Sprintf("accepted call ran callbacks %v, want 0..%d in order exactly once", got, wantCb-1))
			}
		case errors.Is(c.err, cache.ErrAlreadyInvalidated):
			b.R.Count("calls.rejected", 1)
			if len(entries) != 0 {
				fail("rejected-ran-callbacks", fmt.Sprintf("rejected call ran %d callbacks", len(entries)))
			}
		default:
			fail("unexpected-error", fmt.Sprintf("Invalidate returned %v", c.err))
		}
	}
	// groups of different accepted calls must not interleave in the global log
	lastOf := map[int]int{}
	firstOf := map[int]int{}
	for i, e := range log {
		if _, ok := firstOf[e.call]; !ok {
			firstOf[e.call] = i
		}
		lastOf[e.call] = i
	}
	for id, f := range firstOf {
		for j := f; j <= lastOf[id]; j++ {
			if log[j].call != id {
				fail("overlap", fmt.Sprintf("callbacks of call %d interleave with call %d", id, log[j].call))
				break
			}
		}
	}
	// spacing between consecutive accepted calls (ordered by first callback)
	sort.Slice(accepted, func(i, j int) bool {
		ei, ej := byCall[accepted[i].id], byCall[accepted[j].id]
		if len(ei) == 0 || len(ej) == 0 {
			return accepted[i].id < accepted[j].id
		}
		return ei[0].at.Before(ej[0].at)
	})
	for i := 1; i < len(accepted); i++ {
		A, B := accepted[i-1], accepted[i]
		eb := byCall[B.id]
		if len(eb) == 0 {
			continue
		}
		b.R.Count("spacing.pairs", 1)
		// lower bound of the instant A was accepted: its call time, and the end of the previous accepted run (the lock is
		// held while callbacks run, so A cannot have been accepted before the previous run finished)
		lb := A.c
		if i >= 2 {
			if ep := byCall[accepted[i-2].id]; len(ep) > 0 {
				if e := ep[len(ep)-1].end; !e.IsZero() && e.After(lb) {
					lb = e
					b.R.Count("spacing.tightened_by_previous_run", 1)
				}
			}
		}
		if d := eb[0].at.Sub(lb); d < B.skip {
			fail("spacing", fmt.Sprintf("accepted calls %d and %d only %v apart (< SkipInterval %v in force at the later call)", A.id, B.id, d, B.skip))
		}
	}
	if skip < 0 && len(accepted) != len(calls) {
		fail("negative-interval-rejected", "negative SkipInterval must accept every call")
	}
	// must-accept: B has to be accepted if every call that began before B returned had returned >= Skip before B began
	for _, B := range calls {
		must := true
		for _, X := range calls {
			if X == B || !X.c.Before(B.r) {
				continue
			}
			if X.r.IsZero() || B.c.Sub(X.r) < B.skip {
				must = false
				break
			}
		}
		if must {
			b.R.Count("must_accept.checked", 1)
			if B.err != nil {
				fail("must-accept", fmt.Sprintf("call %d began >= SkipInterval after all earlier calls returned but was rejected: %v", B.id, B.err))
			}
		}
	}
	if len(accepted) == 0 {
		fail("none-accepted", "no call was accepted")
	}
	if len(calls) >= 2 {
		b.R.Nontrivial(fmt.Sprintf("%s/%d/%s", skipName, nCb, pattern))
	}
}

// c17Panic: a callback panics during an accepted run and the caller recovers (as a job runner would). The run ran
// callbacks, so it is an accepted call: the next call inside SkipInterval must be rejected and must run nothing; the
// Invalidator stays usable (no lock left behind) and accepts again after the interval.
func c17Panic(b *Batch, idx int) {
	rng := rand.New(rand.NewSource(b.CaseSeed(idx)))
	skip := []time.Duration{time.Hour, 0, 30 * time.Millisecond}[rng.Intn(3)] // 0 = default 15s
	ncb := 2 + rng.Intn(4)
	panicAt := rng.Intn(ncb)
	var runs [8]int32
	armed := int32(1)
	inv := &cache.Invalidator{SkipInterval: skip}
	for c := 0; c < ncb; c++ {
		c := c
		inv.Callbacks = append(inv.Callbacks, func(context.Context) {
			atomic.AddInt32(&runs[c], 1)
			if c == panicAt && atomic.LoadInt32(&armed) == 1 {
				panic("callback panic")
			}
		})
	}
	call := func() (err error, panicked bool) {
		defer func() {
			if recover() != nil {
				panicked = true
			}
		}()
		return inv.Invalidate(bg), false
	}
	w := map[string]interface{}{"skip": skip.String(), "callbacks": ncb, "panic_at": panicAt}
	fail := func(what, msg string) {
		b.R.Violate(b, idx, "C17:panic:"+what, what+": "+msg+fmt.Sprintf(" %v", w), w)
	}
	b.R.Eval()
	t0 := time.Now()
	_, p1 := call()
	if !p1 {
		fail("no-panic", "the callback's panic did not reach the caller")
		return
	}
	atomic.StoreInt32(&armed, 0)
	done := make(chan struct{})
	var err2 error
	go func() { err2, _ = call(); close(done) }()
	select {
	case <-done:
	case <-time.After(20 * time.Second):
		fail("blocked", "Invalidate does not return after an earlier run was aborted by a panicking callback (lock left behind)")
		return
	}
	el := time.Since(t0)
	eff := skip
	if eff == 0 {
		eff = 15 * time.Second
	}
	var total int32
	for c := range runs {
		total += atomic.LoadInt32(&runs[c])
	}
	b.R.Count("panic.cases", 1)
	b.R.Nontrivial(fmt.Sprintf("panic/skip=%v/cbs=%d/at=%d", skip, ncb, panicAt))
	if el < eff { // the second call certainly started within SkipInterval of the accepted (aborted) run
		b.R.Count("panic.second_call_within_interval", 1)
		if !errors.Is(err2, cache.ErrAlreadyInvalidated) || total != int32(panicAt+1) {
			fail("rerun-within-interval", fmt.Sprintf("a call %v after a run that executed %d callback(s) and was aborted by a panic returned %v and callbacks ran %d times in total", el, panicAt+1, err2, total))
		}
	}
	if skip == 30*time.Millisecond {
		time.Sleep(45 * time.Millisecond)
		err3, _ := call()
		if err3 != nil {
			fail("not-accepted-after-interval", fmt.Sprintf("call after SkipInterval returned %v", err3))
		}
	}
}

// c17Cascade: what an Invalidator does depends on its own history only, not on the context it is given. A callback of one
// Invalidator invalidates a second one with the context it received (cascading caches); a context captured inside a callback
// is used later for a third. Each of them has never run before: the call is accepted and runs every callback once, in order.
func c17Cascade(b *Batch, idx int) {
	rng := rand.New(rand.NewSource(b.CaseSeed(idx)))
	mk := func(name string, n int, log *[]string, extra func(ctx context.Context)) *cache.Invalidator {
		inv := &cache.Invalidator{SkipInterval: []time.Duration{time.Hour, 0, time.Millisecond}[rng.Intn(3)]}
		for c := 0; c < n; c++ {
			c := c
			inv.Callbacks = append(inv.Callbacks, func(ctx context.Context) {
				*log = append(*log, fmt.Sprintf("%s/%d", name, c))
				if c == 0 && extra != nil {
					extra(ctx)
				}
			})
		}
		return inv
	}
	var log []string
	var captured context.Context
	var childErr error
	nChild, nParent, nLate := 1+rng.Intn(3), 1+rng.Intn(3), 1+rng.Intn(3)
	child := mk("child", nChild, &log, nil)
	parent := mk("parent", nParent, &log, func(ctx context.Context) {
		captured = context.WithValue(ctx, c17CallID{}, 99) // derived from the callback's context
		childErr = child.Invalidate(ctx)
	})
	late := mk("late", nLate, &log, nil)
	b.R.Eval()
	b.R.Count("cascade.cases", 1)
	b.R.Nontrivial(fmt.Sprintf("cascade/%d/%d/%d", nParent, nChild, nLate))
	perr := parent.Invalidate(context.WithValue(bg, c17CallID{}, 1))
	var lerr error
	if captured != nil {
		lerr = late.Invalidate(captured)
	}
	var want []string
	want = append(want, "parent/0")
	for c := 0; c < nChild; c++ {
		want = append(want, fmt.Sprintf("child/%d", c))
	}
	for c := 1; c < nParent; c++ {
		want = append(want, fmt.Sprintf("parent/%d", c))
	}
	for c := 0; c < nLate; c++ {
		want = append(want, fmt.Sprintf("late/%d", c))
	}
	if perr != nil || childErr != nil || lerr != nil || strings.Join(log, ",") != strings.Join(want, ",") {
		b.R.Violate(b, idx, "C17:cascade:first-call-rejected-or-callbacks-skipped", fmt.Sprintf("three Invalidators that never ran before: parent returned %v, child (invalidated from the parent's callback with the callback's context) %v, a third one (context captured in the callback, used after the run) %v; callbacks run: %v, want %v", perr, childErr, lerr, log, want),
			map[string]interface{}{"log": log, "want": want})
	}
}
