// Package model (dupb) holds a cached value type whose short name "model.Item" also exists in package dupa/model.
package model

// Item is a cached value.
type Item struct {
	B string
}
