package main

import (
	"bytes"
	"context"
	"errors"
	"fmt"
	"math"
	"math/rand"
	"runtime"
	"sort"
	"sync"
	"sync/atomic"
	"time"

	"github.com/bool64/cache"
	"github.com/cespare/xxhash/v2"
)

// Gated real janitor, shared by C11 and C12. The janitor goroutine of the backend under test is paused at its own
// call-outs: Config.EvictionNeeded (consulted once per cycle when no limit is breached) and Stats.Add(cache_evict).

type janEvent struct {
	kind string // "EN" or "evict"
	cnt  float64
}

type janGate struct {
	events chan janEvent
	resume chan bool
	free   int32 // 1: call-outs return immediately
	cycles int64
	evicts int64
}

func newJanGate() *janGate {
	return &janGate{events: make(chan janEvent), resume: make(chan bool)}
}

func (g *janGate) evictionNeeded() bool {
	atomic.AddInt64(&g.cycles, 1)
	if atomic.LoadInt32(&g.free) == 1 {
		return false
	}
	g.events <- janEvent{kind: "EN"}
	return <-g.resume
}

// Add implements cache.StatsTracker; only cache_evict is gated.
func (g *janGate) Add(_ context.Context, name string, inc float64, _ ...string) {
	if name != cache.MetricEvict {
		return
	}
	atomic.AddInt64(&g.evicts, 1)
	if atomic.LoadInt32(&g.free) == 1 {
		return
	}
	g.events <- janEvent{kind: "evict", cnt: inc}
	<-g.resume
}

func (g *janGate) Set(context.Context, string, float64, ...string) {}

var errJanWatchdog = fmt.Errorf("janitor watchdog")

// next waits for the janitor's next gated call-out.
func (g *janGate) next() (janEvent, error) {
	select {
	case e := <-g.events:
		return e, nil
	case <-time.After(30 * time.Second):
		return janEvent{}, errJanWatchdog
	}
}

func (g *janGate) release(answer bool) { g.resume <- answer }

// done lets the janitor run free so that the backend can be collected.
func (g *janGate) done(parked bool) {
	atomic.StoreInt32(&g.free, 1)
	if parked {
		select {
		case g.resume <- false:
		case <-time.After(time.Second):
		}
	}
	// drain a call-out that raced with the mode switch
	go func() {
		for {
			select {
			case <-g.events:
				select {
				case g.resume <- false:
				case <-time.After(time.Second):
				}
			case <-time.After(2 * time.Second):
				return
			}
		}
	}()
}

// ---------------------------------------------------------------------------
// C11

type c11Entry struct {
	val   string
	class string // never, fresh, recent, long
}

func init() {
	register(&Engine{
		ID:      "C11",
		Batches: func(tier string) int { return 16 },
		Run:     runC11,
		Rule: "real janitor (DeleteExpiredJobInterval=1ms, DeleteExpiredAfter=1h) paused between cycles at its EvictionNeeded call-out; seeded rounds write mixes of never-expiring, fresh (+1h..+3h), " +
			"recently expired (-1s..-30min) and long-expired (-2h..-10h) entries, then let 1..3 cleanup cycles run and compare Len/Walk/Read with the model (survivors = all but long-expired); " +
			"TimeToLive finite and Unlimited (incl. first per-call TTL arriving late), all three backends; distinct_nontrivial = distinct (backend, ttl mode, class-mix pattern per round) cases containing a long-expired and a surviving entry",
		Required:    []string{"cycles.observed", "entries.long_expired.deleted", "entries.never.survived", "entries.recent.survived", "entries.fresh.survived", "unlimited.late_ttl.cases", "hostile_callout.writes", "kind.ShardedMap", "kind.SyncMap", "kind.ShardedMapOf", "stress.rounds", "aging.must_be_deleted.checked", "aging.must_survive.checked", "progress.cleaned", "bulk.cycles", "parked.cases", "renewed.entries_checked", "stress.runs_rewriting_equal_values", "restore_only.cases", "restore_only.mixed_with_never_expiring"},
		Assumptions: []string{"wall clock not stepped; class margins are >=1s against a 1h DeleteExpiredAfter boundary", "no eviction limit configured; EvictionNeeded always answers false"},
		Timeout:     func(string) time.Duration { return 45 * time.Minute },
	})
}

func runC11(b *Batch) {
	nStress := b.Pick(2, 24)
	for i := 0; i < nStress; i++ {
		if !b.Skip(1000000 + i) {
			c11Stress(b, 1000000+i)
		}
		if !b.Skip(1500000 + i) {
			c11Renewed(b, 1500000+i)
		}
	}
	for i := 0; i < b.Pick(6, 60); i++ {
		if !b.Skip(1700000 + i) {
			c11Parked(b, 1700000+i)
		}
	}
	if !b.Skip(2000000) && b.Only < 0 || b.Only == 2000000 {
		c11Aging(b, 2000000)
	}
	if !b.Skip(2100000) && b.Only < 0 || b.Only == 2100000 {
		c11Progress(b, 2100000)
	}
	if !b.Skip(2150000) && b.Only < 0 || b.Only == 2150000 {
		c11RestoreOnly(b, 2150000)
	}
	for i := 0; i < b.Pick(1, 8); i++ {
		if !b.Skip(2200000+i) && b.Only < 0 || b.Only == 2200000+i {
			c11Bulk(b, 2200000+i)
		}
	}
	n := b.Pick(2000, 400000) / b.NBatches
	var wg sync.WaitGroup
	sem := make(chan struct{}, 4)
	for i := 0; i < n; i++ {
		if b.Skip(i) {
			continue
		}
		wg.Add(1)
		sem <- struct{}{}
		go func(i int) {
			defer wg.Done()
			defer func() { <-sem }()
			c11Case(b, i)
		}(i)
	}
	wg.Wait()
}

func c11Case(b *Batch, idx int) {
	rng := rand.New(rand.NewSource(b.CaseSeed(idx)))
	kind := backendKinds[rng.Intn(3)]
	unlimited := rng.Intn(2) == 0
	lateTTL := unlimited && rng.Intn(2) == 0
	cfg := cache.Config{
		DeleteExpiredJobInterval: time.Millisecond,
		DeleteExpiredAfter:       time.Hour,
		TimeToLive:               2 * time.Hour,
	}
	if unlimited {
		cfg.TimeToLive = cache.UnlimitedTTL
	}
	if rng.Intn(2) == 0 {
		cfg.ExpirationJitter = -1
	}
	g := newJanGate()
	cfg.EvictionNeeded = g.evictionNeeded
	hostile := &calloutStats{}
	cfg.Stats = hostile
	be := newBackend(kind, cfg)
	b.R.Eval()
	b.R.Count("kind."+kind, 1)
	if lateTTL {
		b.R.Count("unlimited.late_ttl.cases", 1)
	}
	var hist []string
	w := map[string]interface{}{"backend": kind, "unlimited": unlimited, "lateTTL": lateTTL}
	fail := func(what, msg string) {
		w["history"] = hist
		b.R.Violate(b, idx, "C11:"+kind+":"+what, fmt.Sprintf("%s: %s (unlimited=%v)", what, msg, unlimited), w)
	}
	parked := false
	defer func() { g.done(parked) }()
	if _, err := g.next(); err != nil {
		b.R.Inconcl("C11: janitor never reached its first EvictionNeeded call-out")
		return
	}
	parked = true
	model := map[string]*c11Entry{}
	rounds := 1 + rng.Intn(4)
	tok := 0
	pattern := ""
	sawLong, sawSurvivor := false, false
	for r := 0; r < rounds; r++ {
		nw := 1 + rng.Intn(12)
		classes := map[string]int{}
		for i := 0; i < nw; i++ {
			var k string
			if len(model) > 0 && rng.Intn(4) == 0 { // overwrite an existing key
				ks := make([]string, 0, len(model))
				for mk := range model {
					ks = append(ks, mk)
				}
				sort.Strings(ks)
				k = ks[rng.Intn(len(ks))]
			} else {
				k = fmt.Sprintf("k%d-%d", r, i)
			}
			tok++
			v := fmt.Sprintf("v%d", tok)
			var class string
			ctx := bg
			c := rng.Intn(4)
			if lateTTL && r == 0 {
				c = 0 // only never-expiring entries in the first round: the scan is not enabled yet
			}
			switch c {
			case 0:
				if unlimited {
					class = "never"
				} else {
					class = "fresh" // config TTL 2h
				}
			case 1:
				class = "fresh"
				ctx = cache.WithTTL(bg, time.Hour+time.Duration(rng.Int63n(int64(2*time.Hour))), false)
			case 2:
				class = "recent"
				ctx = cache.WithTTL(bg, -time.Second-time.Duration(rng.Int63n(int64(30*time.Minute))), false)
			default:
				class = "long"
				ctx = cache.WithTTL(bg, -2*time.Hour-time.Duration(rng.Int63n(int64(8*time.Hour))), false)
			}
			be.Write(ctx, []byte(k), v)
			model[k] = &c11Entry{val: v, class: class}
			classes[class]++
			hist = append(hist, fmt.Sprintf("write %s=%s %s", k, v, class))
		}
		if rng.Intn(5) == 0 {
			// DeleteAll / ExpireAll whose metric call-out writes a long-expired entry: the write races with the end of the
			// batch operation exactly as a concurrent writer would
			late := fmt.Sprintf("late-%d", r)
			tok++
			lv := fmt.Sprintf("v%d", tok)
			hostile.arm(func() {
				be.Write(cache.WithTTL(bg, -5*time.Hour, false), []byte(late), lv)
			})
			if rng.Intn(2) == 0 {
				be.DeleteAll(bg)
				model = map[string]*c11Entry{}
				hist = append(hist, "DeleteAll with a long-expired write during its cache_delete call-out")
			} else {
				be.ExpireAll(bg)
				advanceClock()
				for _, e := range model {
					e.class = "recent" // every entry, also a long-expired one, now expired just now
				}
				hist = append(hist, "ExpireAll with a long-expired write during its cache_expired call-out")
			}
			if hostile.fired() {
				model[late] = &c11Entry{val: lv, class: "long"}
				b.R.Count("hostile_callout.writes", 1)
			}
			pattern += "H;"
		}
		pattern += fmt.Sprintf("%d:%v;", r, classes)
		cycles := 1 + rng.Intn(3)
		for c := 0; c < cycles; c++ {
			g.release(false)
			parked = false
			if _, err := g.next(); err != nil {
				b.R.Inconcl("C11: janitor did not come back within the watchdog")
				return
			}
			parked = true
			b.R.Count("cycles.observed", 1)
		}
		hist = append(hist, fmt.Sprintf("%d cleanup cycles", cycles))
		// judge
		for k, e := range model {
			v, err := be.Read(bg, []byte(k))
			switch e.class {
			case "long":
				sawLong = true
				if errClass(err) != "notfound" {
					fail("long-expired-survived", fmt.Sprintf("entry %s expired >1h ago still readable after a cleanup cycle: (%v,%v)", k, v, err))
				} else {
					b.R.Count("entries.long_expired.deleted", 1)
				}
				delete(model, k)
			case "never", "fresh":
				sawSurvivor = true
				if err != nil || v != e.val {
					fail(e.class+"-deleted", fmt.Sprintf("%s entry %s: Read=(%v,%v) after cleanup", e.class, k, v, err))
					delete(model, k)
				} else {
					b.R.Count("entries."+e.class+".survived", 1)
				}
			case "recent":
				sawSurvivor = true
				sv, _, ok := be.Expired(err)
				if !ok || sv != e.val {
					fail("recent-deleted", fmt.Sprintf("recently expired entry %s: Read=(%v,%v) after cleanup, want stale value", k, v, err))
					delete(model, k)
				} else {
					b.R.Count("entries.recent.survived", 1)
				}
			}
		}
		if n := be.Len(); n != len(model) {
			fail("len", fmt.Sprintf("Len=%d, model=%d after round %d", n, len(model), r))
			return
		}
		seen := map[string]bool{}
		be.Walk(func(k []byte, v interface{}, _ timeT) error {
			e := model[string(k)]
			if e == nil || e.val != v || seen[string(k)] {
				fail("walk", fmt.Sprintf("Walk reports %s=%v not in model", k, v))
			}
			seen[string(k)] = true
			return nil
		})
	}
	if sawLong && sawSurvivor {
		b.R.Nontrivial(fmt.Sprintf("%s/u=%v/late=%v/%s", kind, unlimited, lateTTL, pattern))
	}
	if idx == 0 {
		w["history"] = hist
		b.R.Sample(w)
	}
}

// ---------------------------------------------------------------------------
// C12

func init() {
	register(&Engine{
		ID:      "C12",
		Batches: func(tier string) int { return 16 },
		Run:     runC12,
		Rule: "real janitor gated at EvictionNeeded / Stats.Add(cache_evict); seeded cases: L in {10,100,1000}, n in {L-1,L,L+1,2L,10L}, EvictFraction in {default,0.01,0.1,0.5,0.51,1}, strategy {MostExpired,LRU,LFU}, " +
			"trigger {none,count breach,EvictionNeeded=true once,HeapInUseSoftLimit=1,count+heap}, seeded access history; after exactly one eviction cycle the amount, the cache_evict metric and the strategy order " +
			"(max rank of removed <= min rank of kept) are judged; distinct_nontrivial = distinct (backend,strategy,trigger,L,n,fraction) cells in which an eviction was due",
		Required:    []string{"converge.trials", "cases.with_long_expired", "cases.no_trigger", "cases.count", "cases.needed", "cases.heap", "evictions.judged", "order.pairs_checked", "strategy.MostExpired", "strategy.LRU", "strategy.LFU", "lfu.heavily_served_cases", "keys.colliding_pairs", "cases.expireall_after_access_history", "reads.stale_serves_counted"},
		Assumptions: []string{"HeapInuse of the child process exceeds 1 byte; wall clock strictly advanced between LRU reads (spin)"},
		Timeout:     func(string) time.Duration { return 45 * time.Minute },
	})
}

func runC12(b *Batch) {
	for i := 0; i < b.Pick(60, 1200); i++ {
		if !b.Skip(3000000 + i) {
			c12Converge(b, 3000000+i)
		}
	}
	n := b.Pick(2400, 400000) / b.NBatches
	var wg sync.WaitGroup
	sem := make(chan struct{}, 4)
	for i := 0; i < n; i++ {
		if b.Skip(i) {
			continue
		}
		wg.Add(1)
		sem <- struct{}{}
		go func(i int) {
			defer wg.Done()
			defer func() { <-sem }()
			c12Case(b, i)
		}(i)
	}
	wg.Wait()
}

// evCntSeen: at least one full cleanup cycle has run over the prepared content.
func evCntSeen(evCnt float64, expectEvict bool) bool { return true }

func c12Case(b *Batch, idx int) {
	rng := rand.New(rand.NewSource(b.CaseSeed(idx)))
	kind := backendKinds[rng.Intn(3)]
	L := []int{10, 100, 1000}[rng.Intn(3)]
	if !b.Thorough() && L == 1000 && rng.Intn(2) == 0 {
		L = 100
	}
	nChoices := []int{L - 1, L, L + 1, 2 * L, 10 * L}
	n := nChoices[rng.Intn(len(nChoices))]
	if n > 5000 {
		n = 5000
	}
	fracs := []float64{0, 0.01, 0.1, 0.5, 0.51, 1}
	frac := fracs[rng.Intn(len(fracs))]
	effFrac := frac
	if frac == 0 {
		effFrac = 0.1
	}
	strategies := []cache.EvictionStrategy{cache.EvictMostExpired, cache.EvictLeastRecentlyUsed, cache.EvictLeastFrequentlyUsed}
	sNames := []string{"MostExpired", "LRU", "LFU"}
	si := rng.Intn(3)
	triggers := []string{"none", "count", "needed", "heap", "count+heap", "sys-huge", "sys-huge+count", "sys-tiny"}
	trigger := triggers[rng.Intn(len(triggers))]
	unlimited := rng.Intn(3) == 0

	g := newJanGate()
	cfg := cache.Config{
		DeleteExpiredJobInterval: time.Millisecond,
		DeleteExpiredAfter:       100 * time.Hour,
		TimeToLive:               time.Hour,
		EvictFraction:            frac,
		EvictionStrategy:         strategies[si],
		EvictionNeeded:           g.evictionNeeded,
		Stats:                    g,
		ExpirationJitter:         -1,
	}
	if unlimited {
		cfg.TimeToLive = cache.UnlimitedTTL
	}
	switch trigger {
	case "count":
		cfg.CountSoftLimit = uint64(L)
	case "heap":
		cfg.HeapInUseSoftLimit = 1
	case "count+heap":
		cfg.CountSoftLimit = uint64(L)
		cfg.HeapInUseSoftLimit = 1
	case "sys-huge": // a configured limit that is never exceeded: must not trigger anything
		cfg.SysMemSoftLimit = 1 << 60
	case "sys-huge+count":
		cfg.SysMemSoftLimit = 1 << 60
		cfg.CountSoftLimit = uint64(L)
	case "sys-tiny": // always exceeded, behaves like the heap trigger
		cfg.SysMemSoftLimit = 1
	}
	heap := cfg.HeapInUseSoftLimit != 0 || cfg.SysMemSoftLimit == 1
	be := newBackend(kind, cfg)
	b.R.Eval()
	cell := fmt.Sprintf("%s/%s/%s/L=%d/n=%d/f=%v/u=%v", kind, sNames[si], trigger, L, n, frac, unlimited)
	w := map[string]interface{}{"cell": cell}
	fail := func(what, msg string) {
		b.R.Violate(b, idx, "C12:"+kind+":"+sNames[si]+":"+what, fmt.Sprintf("%s: %s [%s]", what, msg, cell), w)
	}
	parked := false
	defer func() { g.done(parked) }()
	// capture the janitor
	ev, err := g.next()
	if err != nil {
		b.R.Inconcl("C12: janitor never reached a gated call-out")
		return
	}
	parked = true
	if heap {
		// first event must be the premature eviction on empty content
		if ev.kind != "evict" {
			b.R.Inconcl("C12: heap-limit janitor consulted EvictionNeeded (limit not breached?)")
			return
		}
	} else if ev.kind != "EN" {
		fail("evict-without-trigger", fmt.Sprintf("cache_evict=%v reported on an empty cache with no limit breached", ev.cnt))
		return
	}
	// prepare content and access history while the janitor is parked
	rank := map[string]float64{} // strategy rank of each key (lower = evicted first)
	keys := make([]string, n)
	prep := "write"
	if sNames[si] == "MostExpired" && rng.Intn(3) == 0 {
		prep = []string{"restore", "expireall"}[rng.Intn(2)]
	}
	target := be
	if prep == "restore" {
		// the content is built in another instance and arrives through Dump/Restore: this instance never sees a TTL'd Write
		target = newBackend(kind, cache.Config{TimeToLive: cfg.TimeToLive, ExpirationJitter: -1})
	}
	collidingPairs := kind == "SyncMap" && rng.Intn(3) == 0 // SyncMap keeps keys with equal xxhash64 apart: eviction must too
	var pair [][]byte
	for i := 0; i < n; i++ {
		k := fmt.Sprintf("e%05d", i)
		if collidingPairs && i < n/2 {
			if i%2 == 0 {
				pair = collidingKeys(rng, 2)
				b.R.Count("keys.colliding_pairs", 1)
			}
			k = string(pair[i%2])
		}
		keys[i] = k
		ctx := bg
		switch {
		case prep == "expireall" && unlimited:
			// plain writes only: every entry is a never-expiring one until ExpireAll stamps it
		case sNames[si] == "MostExpired":
			// distinct expiries, both expired and not; sometimes never-expiring in an Unlimited cache
			if unlimited && rng.Intn(4) == 0 {
				rank[k] = math.Inf(1) // never expires: must outlive every entry that has an expiry
			} else {
				ttl := time.Duration(rng.Int63n(int64(20*time.Hour))) - 10*time.Hour
				if ttl == 0 {
					ttl = time.Second
				}
				ctx = cache.WithTTL(bg, ttl, false)
			}
		case !unlimited && rng.Intn(5) == 0:
			ctx = cache.WithTTL(bg, 2*time.Hour, false)
		}
		target.Write(ctx, []byte(k), "v"+k)
	}
	if prep != "write" {
		if prep == "restore" {
			var buf bytes.Buffer
			if _, err := target.Dump(&buf); err == nil {
				if _, err := be.Restore(&buf); err != nil {
					fail("restore", err.Error())
				}
			}
		} else {
			// ExpireAll, then more entries: the expired ones have the earliest expiry
			be.ExpireAll(bg)
			advanceClock()
			for k := range rank {
				delete(rank, k) // formerly never-expiring entries now carry the ExpireAll instant
			}
			extra := 1 + rng.Intn(n)
			for i := 0; i < extra; i++ {
				k := fmt.Sprintf("x%05d", i)
				keys = append(keys, k)
				ctx := bg
				if !unlimited {
					ctx = cache.WithTTL(bg, time.Hour+time.Duration(rng.Int63n(int64(time.Hour))), false)
				} else {
					rank[k] = math.Inf(1) // plain write into an Unlimited cache: never expires
				}
				be.Write(ctx, []byte(k), "v"+k)
			}
			n += extra
		}
		b.R.Count("cases.prepared_by_"+prep, 1)
		cell += "/prep=" + prep
		w["cell"] = cell
	}
	switch sNames[si] {
	case "MostExpired":
		be.Walk(func(k []byte, _ interface{}, exp timeT) error {
			if _, never := rank[string(k)]; !never {
				rank[string(k)] = float64(exp.UnixNano())
			}
			return nil
		})
	case "LRU":
		reads := rng.Intn(2*n + 1)
		seq := 0.0
		for i := 0; i < reads; i++ {
			k := keys[rng.Intn(n)]
			advanceClock()
			if _, err := be.Read(bg, []byte(k)); err != nil {
				fail("read", err.Error())
			}
			advanceClock()
			seq++
			rank[k] = seq
		}
	case "LFU":
		if n <= 120 && rng.Intn(6) == 0 {
			// long-lived hot entries: thousands of serves each; "least frequently" still means the smaller count
			for _, k := range keys[:n] {
				cnt := 4200 + rng.Intn(12000)
				for i := 0; i < cnt; i++ {
					if _, err := be.Read(bg, []byte(k)); err != nil {
						fail("read", err.Error())
						break
					}
				}
				rank[k] += float64(cnt)
			}
			b.R.Count("lfu.heavily_served_cases", 1)
			cell += "/heavy"
			w["cell"] = cell
		}
		reads := rng.Intn(3*n + 1)
		for i := 0; i < reads; i++ {
			k := keys[rng.Intn(n)]
			if rng.Intn(3) == 0 {
				k = keys[rng.Intn(1+n/4)] // hot subset
			}
			if _, err := be.Read(bg, []byte(k)); err != nil {
				fail("read", err.Error())
			}
			rank[k]++
		}
	}
	if sNames[si] != "MostExpired" && rng.Intn(4) == 0 {
		// ExpireAll after the access history was made: entries are expired now, their usage ranks are what they were
		be.ExpireAll(bg)
		b.R.Count("cases.expireall_after_access_history", 1)
		cell += "/expireall-after-reads"
		w["cell"] = cell
		// the expired entries keep being served as stale values (that is what Failover hands out during an update):
		// these serves count like any other
		more := rng.Intn(2*n + 1)
		seq := float64(4 * n)
		for i := 0; i < more; i++ {
			k := keys[rng.Intn(n)]
			advanceClock()
			if _, err := be.Read(bg, []byte(k)); errClass(err) != "expired" {
				fail("read", fmt.Sprintf("stale read: %v", err))
			}
			advanceClock()
			if sNames[si] == "LRU" {
				seq++
				rank[k] = seq
			} else {
				rank[k]++
			}
		}
		b.R.Count("reads.stale_serves_counted", int64(more))
	}
	// sometimes long-expired entries are present as well: the cycle purges them first, eviction is judged on what is left
	nDead := 0
	if rng.Intn(3) == 0 {
		nDead = 1 + rng.Intn(2*L)
		for i := 0; i < nDead; i++ {
			be.Write(cache.WithTTL(bg, -200*time.Hour-time.Duration(rng.Int63n(int64(time.Hour))), false), []byte(fmt.Sprintf("dead%05d", i)), "dead")
		}
		b.R.Count("cases.with_long_expired", 1)
		cell += fmt.Sprintf("/dead=%d", nDead)
		w["cell"] = cell
	}
	before := be.Len() - nDead
	if before != n {
		fail("prepare", fmt.Sprintf("Len=%d after writing %d+%d entries while the janitor was parked", before+nDead, n, nDead))
		return
	}
	evictsBefore := atomic.LoadInt64(&g.evicts)

	if nDead > 0 && (trigger == "needed" || trigger == "none" || trigger == "sys-huge") {
		// the janitor is parked after this cycle's purge: give the long-expired entries their own purge cycle first
		g.release(false)
		parked = false
		ev, err = g.next()
		if err != nil {
			b.R.Inconcl("C12: janitor did not come back")
			return
		}
		parked = true
		if ev.kind != "EN" {
			fail("evict-without-trigger", fmt.Sprintf("cache_evict=%v in a cycle without any trigger", ev.cnt))
			return
		}
	}
	// let exactly one (judged) cycle run
	answer := trigger == "needed"
	countBreach := cfg.CountSoftLimit != 0 && n > L
	expectEvict := heap || countBreach || answer
	var evCnt float64 = -1
	g.release(answer)
	parked = false
	if expectEvict || true {
		ev, err = g.next()
		if err != nil {
			b.R.Inconcl("C12: janitor did not come back")
			return
		}
		parked = true
		if ev.kind == "evict" {
			evCnt = ev.cnt
			if !heap {
				// continue to the next EvictionNeeded so that the cycle is complete and no second eviction can follow
				g.release(false)
				parked = false
				ev2, err := g.next()
				if err != nil {
					b.R.Inconcl("C12: janitor did not come back after eviction")
					return
				}
				parked = true
				if ev2.kind == "evict" {
					fail("second-eviction", fmt.Sprintf("a second eviction (cnt=%v) followed although the count was brought below the limit", ev2.cnt))
					return
				}
			}
		} else if trigger == "none" || trigger == "sys-huge" || !expectEvict {
			// let two more cycles pass: still nothing may be evicted
			for c := 0; c < 2; c++ {
				g.release(false)
				parked = false
				ev, err = g.next()
				if err != nil {
					b.R.Inconcl("C12: janitor did not come back")
					return
				}
				parked = true
				if ev.kind == "evict" {
					evCnt = ev.cnt
					break
				}
			}
		}
	}
	deadLeft := 0
	be.Walk(func(k []byte, _ interface{}, _ timeT) error {
		if len(k) > 4 && string(k[:4]) == "dead" {
			deadLeft++
		}
		return nil
	})
	if deadLeft > 0 && (expectEvict || trigger == "none" || true) && evCntSeen(evCnt, expectEvict) {
		fail("long-expired-survived", fmt.Sprintf("%d of %d entries expired >100h ago survived a cleanup cycle", deadLeft, nDead))
	}
	after := be.Len() - deadLeft
	removed := before - after
	nEvicts := atomic.LoadInt64(&g.evicts) - evictsBefore
	w["before"], w["after"], w["cache_evict"], w["evict_events"] = before, after, evCnt, nEvicts
	if idx == 0 {
		b.R.Sample(w)
	}
	b.R.Count("strategy."+sNames[si], 1)
	if !expectEvict {
		b.R.Count("cases.no_trigger", 1)
		if removed != 0 || nEvicts != 0 {
			fail("evict-without-trigger", fmt.Sprintf("removed=%d cache_evict events=%d although no limit was exceeded (n=%d, L=%d, trigger=%s)", removed, nEvicts, n, L, trigger))
		}
		return
	}
	switch {
	case heap:
		b.R.Count("cases.heap", 1)
	case countBreach:
		b.R.Count("cases.count", 1)
	default:
		b.R.Count("cases.needed", 1)
	}
	b.R.Nontrivial(cell)
	if evCnt < 0 {
		fail("no-eviction", fmt.Sprintf("eviction was due (trigger=%s n=%d L=%d) but no cache_evict was reported", trigger, n, L))
		return
	}
	b.R.Count("evictions.judged", 1)
	if int(evCnt) != removed {
		fail("metric", fmt.Sprintf("cache_evict=%v but Len dropped by %d", evCnt, removed))
	}
	if countBreach {
		target := float64(L) * (1 - effFrac)
		if math.Abs(float64(after)-target) > 1.0000001 {
			fail("amount-count", fmt.Sprintf("count breach: remaining %d, want %.2f +-1", after, target))
		}
	} else {
		want := effFrac * float64(n)
		if math.Abs(float64(removed)-want) > 1.0000001 {
			fail("amount-fraction", fmt.Sprintf("removed %d of %d, want %.2f +-1", removed, n, want))
		}
	}
	// order: every removed entry ranks no higher than every kept entry
	kept := map[string]bool{}
	be.Walk(func(k []byte, _ interface{}, _ timeT) error { kept[string(k)] = true; return nil })
	maxRemoved, minKept := math.Inf(-1), math.Inf(1)
	var worstRemoved, worstKept string
	for _, k := range keys {
		r := rank[k]
		if kept[k] {
			if r < minKept {
				minKept, worstKept = r, k
			}
		} else if r > maxRemoved {
			maxRemoved, worstRemoved = r, k
		}
	}
	if removed > 0 && after > 0 {
		b.R.Count("order.pairs_checked", 1)
		if maxRemoved > minKept {
			fail("order", fmt.Sprintf("removed %s (rank %v) outranks kept %s (rank %v)", worstRemoved, maxRemoved, worstKept, minKept))
		}
	}
}

// c11Stress: the janitor runs freely (1ms) while writers keep replacing long-expired entries with fresh ones in one crowded
// shard. A fresh entry must never be removed by a cleanup cycle: Read right after the fresh Write must hit.
func c11Stress(b *Batch, idx int) {
	rng := rand.New(rand.NewSource(b.CaseSeed(idx)))
	kind := backendKinds[rng.Intn(3)]
	cfg := cache.Config{DeleteExpiredJobInterval: time.Millisecond, DeleteExpiredAfter: 30 * time.Minute, TimeToLive: time.Hour, ExpirationJitter: -1}
	if rng.Intn(2) == 0 {
		cfg.TimeToLive = cache.UnlimitedTTL
	}
	be := newBackend(kind, cfg)
	shard := uint64(rng.Intn(128))
	inShard := func(prefix string, n int) [][]byte {
		var ks [][]byte
		for i := 0; len(ks) < n; i++ {
			k := []byte(fmt.Sprintf("%s-%d", prefix, i))
			if xxhash.Sum64(k)%128 == shard {
				ks = append(ks, k)
			}
		}
		return ks
	}
	// recently expired fillers make every scan of the shard long without being deletable themselves
	for _, k := range inShard("filler", 3000) {
		be.Write(cache.WithTTL(bg, -time.Second, false), k, "filler")
	}
	writers := 6
	sameValue := idx%2 == 1
	if sameValue {
		b.R.Count("stress.runs_rewriting_equal_values", 1)
	}
	keys := inShard("victim", writers)
	var wg sync.WaitGroup
	var lost, rounds, longGone int64
	var firstLoss atomic.Value
	for w := 0; w < writers; w++ {
		wg.Add(1)
		r := rand.New(rand.NewSource(rng.Int63()))
		go func(w int) {
			defer wg.Done()
			k := keys[w]
			for i := 0; i < 1000; i++ { // fixed number of rounds, not a time budget
				old := "old"
				if sameValue {
					old = "same" // the expired version and its fresh replacement carry the same value (a refresh of unchanged data)
				}
				be.Write(cache.WithTTL(bg, -time.Hour-time.Duration(r.Intn(1000))*time.Second, false), k, old)
				if r.Intn(2) == 0 {
					time.Sleep(time.Duration(r.Intn(150)) * time.Microsecond)
				}
				if _, err := be.Read(bg, k); errClass(err) == "notfound" {
					atomic.AddInt64(&longGone, 1) // the janitor removed the long-expired version: fine
				}
				tok := fmt.Sprintf("fresh-%d-%d", w, i)
				if sameValue {
					tok = "same"
				}
				be.Write(cache.WithTTL(bg, time.Hour, false), k, tok)
				v, err := be.Read(bg, k)
				atomic.AddInt64(&rounds, 1)
				if err != nil || v != tok {
					atomic.AddInt64(&lost, 1)
					firstLoss.CompareAndSwap(nil, fmt.Sprintf("writer %d round %d: Read after Write(%s,+1h) returned (%v,%v)", w, i, tok, v, err))
				}
			}
		}(w)
	}
	wg.Wait()
	b.R.Eval()
	b.R.Count("stress.runs", 1)
	b.R.Count("stress.rounds", rounds)
	b.R.Count("stress.long_expired_removed_by_janitor", longGone)
	b.R.Nontrivial(fmt.Sprintf("stress/%s/shard=%d/unl=%v", kind, shard, cfg.TimeToLive == cache.UnlimitedTTL))
	if lost > 0 {
		b.R.Violate(b, idx, "C11:"+kind+":fresh-entry-deleted", fmt.Sprintf("%d of %d fresh entries vanished while cleanup cycles were running: %v", lost, rounds, firstLoss.Load()), map[string]interface{}{"backend": kind, "rounds": rounds})
	}
}

// c11Aging: entries age in real time past DeleteExpiredAfter (30ms). Sound bracketing: the janitor's boundary of a cycle lies in
// [release-D, park-D]; an entry with E below the lower bracket must be gone, one above the upper bracket must survive.
func c11Aging(b *Batch, idx int) {
	rng := rand.New(rand.NewSource(b.CaseSeed(idx)))
	const D = 30 * time.Millisecond
	for _, kind := range backendKinds {
		for _, unlimited := range []bool{false, true} {
			cfg := cache.Config{DeleteExpiredJobInterval: time.Millisecond, DeleteExpiredAfter: D, TimeToLive: time.Hour, ExpirationJitter: -1}
			if unlimited {
				cfg.TimeToLive = cache.UnlimitedTTL
			}
			g := newJanGate()
			cfg.EvictionNeeded = g.evictionNeeded
			be := newBackend(kind, cfg)
			parked := false
			func() {
				defer func() { g.done(parked) }()
				if _, err := g.next(); err != nil {
					b.R.Inconcl("C11 aging: janitor never arrived")
					return
				}
				parked = true
				n := 3 + rng.Intn(6)
				for i := 0; i < n; i++ {
					be.Write(cache.WithTTL(bg, -time.Millisecond, false), []byte(fmt.Sprintf("age-%d", i)), "v")
				}
				if unlimited {
					for i, m := 0, 1+rng.Intn(4); i < m; i++ {
						be.Write(bg, []byte(fmt.Sprintf("forever-%d", i)), "v")
					}
				}
				if rng.Intn(2) == 0 {
					// entries that arrive with their expiry through Restore
					src := newBackend(kind, cache.Config{TimeToLive: time.Hour})
					for i, m := 0, 1+rng.Intn(4); i < m; i++ {
						src.Write(cache.WithTTL(bg, -time.Millisecond, false), []byte(fmt.Sprintf("rest-%d", i)), "v")
					}
					var buf bytes.Buffer
					if _, err := src.Dump(&buf); err == nil {
						if _, err := be.Restore(&buf); err == nil {
							b.R.Count("aging.restored_cases", 1)
						}
					}
				}
				E := map[string]int64{}
				be.Walk(func(k []byte, _ interface{}, exp timeT) error { E[string(k)] = exp.UnixNano(); return nil })
				cycle := func() (tr, tp int64, ok bool) {
					tr = time.Now().UnixNano()
					g.release(false)
					parked = false
					if _, err := g.next(); err != nil {
						b.R.Inconcl("C11 aging: janitor did not come back")
						return 0, 0, false
					}
					parked = true
					return tr, time.Now().UnixNano(), true
				}
				judge := func(tr, tp int64, phase string) {
					left := map[string]bool{}
					be.Walk(func(k []byte, _ interface{}, _ timeT) error { left[string(k)] = true; return nil })
					for k, e := range E {
						switch {
						case e == 0 || e >= tp-int64(D):
							b.R.Count("aging.must_survive.checked", 1)
							if !left[k] {
								b.R.Violate(b, idx, "C11:"+kind+":aging-deleted-too-early", fmt.Sprintf("%s: entry %s (E=%d) deleted although it expired less than DeleteExpiredAfter before the cycle [%d,%d]", phase, k, e, tr, tp), nil)
							}
						case e < tr-int64(D):
							b.R.Count("aging.must_be_deleted.checked", 1)
							if left[k] {
								b.R.Violate(b, idx, "C11:"+kind+":aging-long-expired-survived", fmt.Sprintf("%s: entry %s expired %v before the cycle started (DeleteExpiredAfter %v) but survived it (unlimited=%v)", phase, k, time.Duration(tr-e), D, unlimited), nil)
							}
						default:
							b.R.Count("aging.ambiguous.skipped", 1)
						}
					}
				}
				// cycle 1 right away: the entries expired ~1ms ago and must survive
				tr, tp, ok := cycle()
				if !ok {
					return
				}
				judge(tr, tp, "young")
				if rng.Intn(2) == 0 {
					// ExpireAll gives every entry (also the never-expiring one) the expiry "now": all of them age from here
					be.ExpireAll(bg)
					for k := range E {
						delete(E, k)
					}
					be.Walk(func(k []byte, _ interface{}, exp timeT) error { E[string(k)] = exp.UnixNano(); return nil })
					b.R.Count("aging.expireall_cases", 1)
				}
				// let them age past DeleteExpiredAfter while the janitor is parked, then run another cycle
				time.Sleep(D + 20*time.Millisecond)
				tr, tp, ok = cycle()
				if !ok {
					return
				}
				judge(tr, tp, "aged")
				// a cache that has been cleaned out keeps cleaning: a later per-call TTL entry, long expired, goes in the next cycle
				for k := range E {
					delete(E, k)
				}
				be.Write(cache.WithTTL(bg, -D-time.Hour, false), []byte("late"), "v")
				be.Walk(func(k []byte, _ interface{}, exp timeT) error { E[string(k)] = exp.UnixNano(); return nil })
				tr, tp, ok = cycle()
				if !ok {
					return
				}
				judge(tr, tp, "late")
				b.R.Eval()
				b.R.Count("aging.cases", 1)
				b.R.Nontrivial(fmt.Sprintf("aging/%s/unl=%v", kind, unlimited))
			}()
		}
	}
}

// c11Renewed: long-expired entries are renewed by ExpireAll (expiry = now, i.e. recently expired) while the janitor runs
// freely. Once a reader has seen the renewed expiry, the entry is a recently expired one and must survive every cleanup cycle.
func c11Renewed(b *Batch, idx int) {
	rng := rand.New(rand.NewSource(b.CaseSeed(idx)))
	kind := backendKinds[rng.Intn(3)]
	var cycles int64
	cfg := cache.Config{DeleteExpiredJobInterval: 200 * time.Microsecond, DeleteExpiredAfter: 30 * time.Minute, TimeToLive: time.Hour, ExpirationJitter: -1,
		EvictionNeeded: func() bool { atomic.AddInt64(&cycles, 1); return false }}
	be := newBackend(kind, cfg)
	nKeys := 64
	keys := make([][]byte, nKeys)
	for i := range keys {
		keys[i] = []byte(fmt.Sprintf("renew-%d", i))
	}
	var lost, renewedSeen, rounds int64
	var first atomic.Value
	for round := 0; round < 400; round++ {
		for _, k := range keys {
			be.Write(cache.WithTTL(bg, -time.Hour, false), k, "old")
		}
		before := time.Now()
		be.ExpireAll(bg)
		// which entries were renewed (and not already deleted by the janitor)?
		var renewed [][]byte
		for _, k := range keys {
			_, err := be.Read(bg, k)
			if _, at, ok := be.Expired(err); ok && !at.Before(before.Add(-time.Second)) {
				renewed = append(renewed, k)
			}
		}
		renewedSeen += int64(len(renewed))
		// two full cleanup cycles later they must still be there
		c0 := atomic.LoadInt64(&cycles)
		for dl := time.Now().Add(10 * time.Second); atomic.LoadInt64(&cycles) < c0+2 && time.Now().Before(dl); {
			runtime.Gosched()
		}
		for _, k := range renewed {
			if _, err := be.Read(bg, k); errClass(err) == "notfound" {
				lost++
				first.CompareAndSwap(nil, fmt.Sprintf("round %d: key %s had its expiry renewed by ExpireAll (seen by a Read) and was deleted by a cleanup cycle afterwards", round, k))
			}
		}
		rounds++
	}
	runtime.KeepAlive(be)
	b.R.Eval()
	b.R.Count("renewed.rounds", rounds)
	b.R.Count("renewed.entries_checked", renewedSeen)
	b.R.Nontrivial(fmt.Sprintf("renewed/%s/%d", kind, idx))
	if lost > 0 {
		b.R.Violate(b, idx, "C11:"+kind+":renewed-entry-deleted", fmt.Sprintf("%d recently expired (renewed) entries were deleted by cleanup: %v", lost, first.Load()), map[string]interface{}{"backend": kind})
	}
}

// ---- steered SyncMap cleanup: the janitor is parked at the verif pause point between inspecting an entry and deleting it.

type parkSlot struct {
	arrived chan struct{}
	release chan struct{}
}

var (
	parkTable sync.Map // key string -> *parkSlot
	parkOnce  sync.Once
)

func installParkHook() {
	parkOnce.Do(func() {
		cache.VerifSetPoint(func(name string, key interface{}) {
			if name != "syncmap.cleanup.before-delete" {
				return
			}
			ks, _ := key.(string)
			if v, ok := parkTable.Load(ks); ok {
				slot := v.(*parkSlot)
				parkTable.Delete(ks) // one shot
				close(slot.arrived)
				<-slot.release
			}
		})
	})
}

// c11Parked: while the janitor sits between "this entry is long expired" and "delete it", the entry is renewed by ExpireAll,
// rewritten with a fresh value, or deleted and rewritten. In every variant the cleanup cycle must not remove what is there now.
func c11Parked(b *Batch, idx int) {
	installParkHook()
	rng := rand.New(rand.NewSource(b.CaseSeed(idx)))
	var cycles int64
	cfg := cache.Config{DeleteExpiredJobInterval: time.Millisecond, DeleteExpiredAfter: 30 * time.Minute, TimeToLive: time.Hour, ExpirationJitter: -1,
		EvictionNeeded: func() bool { atomic.AddInt64(&cycles, 1); return false }}
	if rng.Intn(2) == 0 {
		cfg.TimeToLive = cache.UnlimitedTTL
	}
	be := newBackend("SyncMap", cfg)
	key := fmt.Sprintf("park-%d-%d-%d", b.Seed, b.Index, idx)
	slot := &parkSlot{arrived: make(chan struct{}), release: make(chan struct{})}
	parkTable.Store(key, slot)
	variant := []string{"expireall", "rewrite-fresh", "delete-rewrite", "rewrite-recent"}[rng.Intn(4)]
	be.Write(cache.WithTTL(bg, -time.Hour, false), []byte(key), "old")
	b.R.Eval()
	fail := func(what, msg string) {
		b.R.Violate(b, idx, "C11:SyncMap:parked-"+what, fmt.Sprintf("janitor parked between inspecting and deleting a long-expired entry, variant %s: %s", variant, msg), map[string]interface{}{"variant": variant})
	}
	select {
	case <-slot.arrived:
	case <-time.After(30 * time.Second):
		parkTable.Delete(key)
		b.R.Inconcl("C11 parked: janitor never reached the pause point")
		return
	}
	b.R.Count("parked.cases", 1)
	b.R.Nontrivial("parked/" + variant + fmt.Sprintf("/unl=%v", cfg.TimeToLive == cache.UnlimitedTTL))
	want := ""
	switch variant {
	case "expireall":
		t0 := time.Now()
		be.ExpireAll(bg)
		_, err := be.Read(bg, []byte(key))
		if v, at, ok := be.Expired(err); !ok || v != "old" || at.Before(t0.Add(-time.Second)) {
			fail("expireall-not-applied", fmt.Sprintf("after ExpireAll the entry reads (%v, %v)", v, err))
		}
		want = "expired:old" // now a recently expired entry: kept as stale fallback
	case "rewrite-fresh":
		be.Write(cache.WithTTL(bg, time.Hour, false), []byte(key), "fresh")
		want = "ok:fresh"
	case "delete-rewrite":
		be.Delete(bg, []byte(key))
		be.Write(bg, []byte(key), "again")
		want = "ok:again"
	case "rewrite-recent":
		be.Write(cache.WithTTL(bg, -time.Second, false), []byte(key), "recent")
		want = "expired:recent"
	}
	close(slot.release)
	c0 := atomic.LoadInt64(&cycles)
	for dl := time.Now().Add(30 * time.Second); atomic.LoadInt64(&cycles) < c0+2; {
		if time.Now().After(dl) {
			b.R.Inconcl("C11 parked: janitor did not finish two cycles")
			return
		}
		time.Sleep(100 * time.Microsecond)
	}
	v, err := be.Read(bg, []byte(key))
	got := errClass(err) + ":" + fmt.Sprint(v)
	if sv, _, ok := be.Expired(err); ok {
		got = "expired:" + fmt.Sprint(sv)
	}
	if got != want {
		fail(variant, fmt.Sprintf("after the cleanup cycle the key reads %s, want %s", got, want))
	}
	runtime.KeepAlive(be)
}

// calloutStats runs an armed action once inside the next cache_delete / cache_expired metric call-out of a batch operation.
type calloutStats struct {
	mu     sync.Mutex
	action func()
	done   bool
}

func (c *calloutStats) arm(f func()) {
	c.mu.Lock()
	c.action, c.done = f, false
	c.mu.Unlock()
}

func (c *calloutStats) fired() bool {
	c.mu.Lock()
	defer c.mu.Unlock()
	c.action = nil
	return c.done
}

func (c *calloutStats) Add(_ context.Context, name string, inc float64, _ ...string) {
	if name != cache.MetricDelete && name != cache.MetricExpired {
		return
	}
	if name == cache.MetricExpired && inc == 1 {
		return // a single expired read, not ExpireAll
	}
	c.mu.Lock()
	f := c.action
	c.action = nil
	if f != nil {
		c.done = true
	}
	c.mu.Unlock()
	if f != nil {
		f()
	}
}

func (c *calloutStats) Set(context.Context, string, float64, ...string) {}

// c12Converge: the janitor runs freely (1ms) while writers push the count just above CountSoftLimit and then stop. A breach that
// persists must be acted upon by a following cycle: bounded progress - within 10 s (thousands of cycles) Len comes down to the limit.
func c12Converge(b *Batch, idx int) {
	rng := rand.New(rand.NewSource(b.CaseSeed(idx)))
	kind := backendKinds[rng.Intn(3)]
	L := 20 + rng.Intn(40)
	single := rng.Intn(2) == 0 // exactly one late write crosses the limit
	if rng.Intn(4) == 0 {
		// a large SyncMap: counting takes long, so a single late write is likely to land while the janitor counts
		kind, L, single = "SyncMap", 5000+rng.Intn(10000), true
	}
	cfg := cache.Config{DeleteExpiredJobInterval: time.Millisecond, CountSoftLimit: uint64(L), EvictFraction: 0.1, TimeToLive: cache.UnlimitedTTL,
		EvictionStrategy: c16Strategies[rng.Intn(3)]}
	if rng.Intn(2) == 0 {
		cfg.TimeToLive = time.Hour
	}
	be := newBackend(kind, cfg)
	for i := 0; i < L; i++ {
		be.Write(bg, []byte(fmt.Sprintf("base-%d", i)), "v")
	}
	// a handful of late writes from several goroutines, racing with the janitor's count check
	var wg sync.WaitGroup
	writers := 2 + rng.Intn(4)
	if single {
		writers = 1
	}
	for w := 0; w < writers; w++ {
		wg.Add(1)
		d := time.Duration(rng.Intn(1500)) * time.Microsecond
		go func(w int) {
			defer wg.Done()
			time.Sleep(d)
			be.Write(bg, []byte(fmt.Sprintf("late-%d", w)), "v")
		}(w)
	}
	wg.Wait()
	ok := false
	for dl := time.Now().Add(10 * time.Second); time.Now().Before(dl); {
		if be.Len() <= L {
			ok = true
			break
		}
		time.Sleep(200 * time.Microsecond)
	}
	n := be.Len()
	runtime.KeepAlive(be)
	b.R.Eval()
	b.R.Count("converge.trials", 1)
	b.R.Nontrivial(fmt.Sprintf("converge/%s/L=%d/w=%d/idx=%d", kind, L, writers, idx%50))
	if !ok {
		b.R.Violate(b, idx, "C12:"+kind+":breach-not-evicted", fmt.Sprintf("count %d stays above CountSoftLimit %d for 10 s of 1ms cleanup cycles after the writers stopped", n, L), map[string]interface{}{"backend": kind, "L": L})
	}
}

// reportCounter counts the periodic cache_items reports: a logical clock that ticks only while the cache's background
// work is alive.
type reportCounter struct{ n int64 }

func (c *reportCounter) Add(context.Context, string, float64, ...string) {}
func (c *reportCounter) Set(_ context.Context, name string, _ float64, _ ...string) {
	if name == cache.MetricItems {
		atomic.AddInt64(&c.n, 1)
	}
}

// c11Progress: bounded progress of the cleanup job next to the other periodic job of a cache (items count report, enabled
// by Stats). A long-expired entry must be gone well before the reporter has ticked thousands of times; the verdict is in
// reporter ticks (the wall clock is only a watchdog).
func c11Progress(b *Batch, idx int) {
	for _, kind := range backendKinds {
		for _, fastReport := range []bool{true, false} {
			rc := &reportCounter{}
			cfg := cache.Config{DeleteExpiredJobInterval: 2 * time.Millisecond, DeleteExpiredAfter: time.Millisecond, TimeToLive: time.Hour, Stats: rc}
			if fastReport {
				cfg.ItemsCountReportInterval = 300 * time.Microsecond
			}
			be := newBackend(kind, cfg)
			be.Write(cache.WithTTL(bg, -time.Second, false), []byte("old"), "v")
			be.Write(bg, []byte("fresh"), "v")
			start := time.Now()
			gone := false
			for time.Since(start) < 30*time.Second {
				if _, err := be.Read(bg, []byte("old")); errors.Is(err, cache.ErrNotFound) {
					gone = true
					break
				}
				if fastReport && atomic.LoadInt64(&rc.n) >= 3000 && time.Since(start) > 2*time.Second {
					break
				}
				time.Sleep(time.Millisecond)
			}
			ticks := atomic.LoadInt64(&rc.n)
			runtime.KeepAlive(be)
			b.R.Eval()
			switch {
			case gone:
				b.R.Count("progress.cleaned", 1)
				b.R.Nontrivial(fmt.Sprintf("progress/%s/fast=%v", kind, fastReport))
				if _, err := be.Read(bg, []byte("fresh")); err != nil {
					b.R.Violate(b, idx, "C11:"+kind+":progress-fresh-deleted", fmt.Sprintf("fresh entry reads %v", err), nil)
				}
			case fastReport && ticks >= 3000:
				b.R.Violate(b, idx, "C11:"+kind+":cleanup-starved", fmt.Sprintf("entry expired 1s ago (DeleteExpiredAfter 1ms, job interval 2ms) still stored after %d items-count reports (interval 300µs, %v): the cleanup job does not run next to the reporter", ticks, time.Since(start)), nil)
			default:
				b.R.Inconcl(fmt.Sprintf("C11 progress: no cleanup within watchdog (%s fast=%v ticks=%d)", kind, fastReport, ticks))
			}
		}
	}
}

// c11Bulk: one stepped cleanup cycle over a big cache: tens of thousands of long-expired entries (the majority of every
// shard) next to never-expiring, fresh and recently expired ones. Exactly the long-expired ones go.
func c11Bulk(b *Batch, idx int) {
	rng := rand.New(rand.NewSource(b.CaseSeed(idx)))
	kind := backendKinds[rng.Intn(3)]
	const D = time.Minute
	g := newJanGate()
	cfg := cache.Config{DeleteExpiredJobInterval: time.Millisecond, DeleteExpiredAfter: D, TimeToLive: cache.UnlimitedTTL, ExpirationJitter: -1, EvictionNeeded: g.evictionNeeded}
	be := newBackend(kind, cfg)
	parked := false
	defer func() { g.done(parked) }()
	if _, err := g.next(); err != nil {
		b.R.Inconcl("C11 bulk: janitor never arrived")
		return
	}
	parked = true
	nLong := 12000 + rng.Intn(20000)
	nOther := 500 + rng.Intn(1500)
	classes := map[string]context.Context{
		"long":   cache.WithTTL(bg, -time.Hour, false),
		"recent": cache.WithTTL(bg, -time.Second, false),
		"fresh":  cache.WithTTL(bg, time.Hour, false),
		"never":  bg,
	}
	for i := 0; i < nLong; i++ {
		be.Write(classes["long"], []byte(fmt.Sprintf("long-%d", i)), "v")
	}
	for _, c := range []string{"recent", "fresh", "never"} {
		for i := 0; i < nOther; i++ {
			be.Write(classes[c], []byte(fmt.Sprintf("%s-%d", c, i)), "v")
		}
	}
	g.release(false)
	parked = false
	if _, err := g.next(); err != nil {
		b.R.Inconcl("C11 bulk: janitor did not come back")
		return
	}
	parked = true
	left := map[string]int{}
	be.Walk(func(k []byte, _ interface{}, _ timeT) error {
		left[string(k[:bytes.IndexByte(k, '-')])]++
		return nil
	})
	b.R.Eval()
	b.R.Count("bulk.cycles", 1)
	b.R.Count("bulk.long_expired_entries", int64(nLong))
	b.R.Nontrivial(fmt.Sprintf("bulk/%s/long>=%d", kind, nLong/4000*4000))
	w := map[string]interface{}{"backend": kind, "long_expired": nLong, "per_other_class": nOther, "left": left}
	if left["long"] != 0 {
		b.R.Violate(b, idx, "C11:"+kind+":bulk-long-expired-survived", fmt.Sprintf("%d of %d long-expired entries survived a cleanup cycle of a big cache", left["long"], nLong), w)
	}
	for _, c := range []string{"recent", "fresh", "never"} {
		if left[c] != nOther {
			b.R.Violate(b, idx, "C11:"+kind+":bulk-"+c+"-deleted", fmt.Sprintf("%d of %d %s entries are gone after a cleanup cycle that had %d long-expired entries to delete", nOther-left[c], nOther, c, nLong), w)
		}
	}
	runtime.KeepAlive(be)
}

// c11RestoreOnly: a cache whose whole content arrived through Restore (never-expiring entries dumped by an UnlimitedTTL
// instance) and was then expired by ExpireAll - no Write ever happened on it. The entries age past DeleteExpiredAfter in real
// time and the next cycle must remove them, for finite and unlimited configurations alike.
func c11RestoreOnly(b *Batch, idx int) {
	rng := rand.New(rand.NewSource(b.CaseSeed(idx)))
	const D = 30 * time.Millisecond
	for _, kind := range backendKinds {
		for _, unlimited := range []bool{false, true} {
			cfg := cache.Config{DeleteExpiredJobInterval: time.Millisecond, DeleteExpiredAfter: D, TimeToLive: time.Hour, ExpirationJitter: -1}
			if unlimited {
				cfg.TimeToLive = cache.UnlimitedTTL
			}
			g := newJanGate()
			cfg.EvictionNeeded = g.evictionNeeded
			be := newBackend(kind, cfg)
			parked := false
			func() {
				defer func() { g.done(parked) }()
				if _, err := g.next(); err != nil {
					b.R.Inconcl("C11 restore-only: janitor never arrived")
					return
				}
				parked = true
				src := newBackend(kind, cache.Config{TimeToLive: cache.UnlimitedTTL})
				n := 2 + rng.Intn(30)
				withExpiry := rng.Intn(2) == 0 // the entries arrive with their own (past) expiry instead of being expired here
				// mixed: the dump also holds never-expiring entries (often more of them, so that the stream likely ends with
				// one): the expired ones must still be cleaned and the never-expiring ones must survive
				mixed, nNever := withExpiry && rng.Intn(2) == 0, 0
				if mixed {
					nNever = 1 + rng.Intn(3*n)
					for i := 0; i < nNever; i++ {
						src.Write(bg, []byte(fmt.Sprintf("n-%d", i)), "v")
					}
				}
				for i := 0; i < n; i++ {
					if withExpiry {
						src.Write(cache.WithTTL(bg, -time.Millisecond, false), []byte(fmt.Sprintf("r-%d", i)), "v")
					} else {
						src.Write(bg, []byte(fmt.Sprintf("r-%d", i)), "v")
					}
				}
				var buf bytes.Buffer
				if _, err := src.Dump(&buf); err != nil {
					return
				}
				if withExpiry && !mixed && rng.Intn(2) == 0 {
					// the stream breaks off in the middle: what was restored before the error is in the cache (with its expiry)
					cut := buf.Len() * (40 + rng.Intn(50)) / 100
					got, err := be.Restore(bytes.NewReader(buf.Bytes()[:cut]))
					if err == nil || got == 0 || be.Len() == 0 {
						return // nothing (or everything) arrived: not the case aimed at
					}
					n = be.Len()
					b.R.Count("restore_only.truncated_streams", 1)
				} else if _, err := be.Restore(&buf); err != nil {
					return
				}
				if !withExpiry {
					be.ExpireAll(bg)
				}
				time.Sleep(D + 20*time.Millisecond)
				tr := time.Now()
				g.release(false)
				parked = false
				if _, err := g.next(); err != nil {
					b.R.Inconcl("C11 restore-only: janitor did not come back")
					return
				}
				parked = true
				b.R.Eval()
				b.R.Count("restore_only.cases", 1)
				b.R.Nontrivial(fmt.Sprintf("restore-only/%s/unl=%v", kind, unlimited))
				left, leftNever := 0, 0
				var oldest time.Time
				be.Walk(func(k []byte, _ interface{}, exp timeT) error {
					if k[0] == 'n' {
						leftNever++
					} else {
						left++
						oldest = exp
					}
					return nil
				})
				if mixed {
					b.R.Count("restore_only.mixed_with_never_expiring", 1)
				}
				if leftNever != nNever {
					b.R.Violate(b, idx, "C11:"+kind+":restored-never-expiring-deleted", fmt.Sprintf("%d of %d never-expiring entries that arrived by Restore are gone after a cleanup cycle (unlimited=%v)", nNever-leftNever, nNever, unlimited), nil)
				}
				if left != 0 {
					b.R.Violate(b, idx, "C11:"+kind+":restored-then-expired-survived", fmt.Sprintf("%d of %d entries that arrived by Restore and expired (by ExpireAll here, or before they were dumped) %v before the cycle (DeleteExpiredAfter %v) survived it (unlimited=%v, no Write ever happened on this cache)", left, n, tr.Sub(oldest).Round(time.Millisecond), D, unlimited), nil)
				}
			}()
			runtime.KeepAlive(be)
		}
	}
}
