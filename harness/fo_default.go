package main

import (
	"context"
	"errors"
	"fmt"
	"math/rand"
	"sync/atomic"
	"time"

	"github.com/bool64/cache"
)

// Families for a Failover that creates its own backend (FailoverConfig.Backend == nil, BackendConfig given): the wiring
// between the frontend's options, its private backend and its failure cache is only exercised this way. The private backend
// is reachable through Get alone; its janitor is observed through BackendConfig.EvictionNeeded (called at the end of
// every cleanup cycle).

type dfo struct {
	api    string
	get    func(ctx context.Context, key string, build func() (string, error)) (string, error)
	cycles *int64
}

func newDefaultFailover(api string, fc cache.FailoverConfig, cycles *int64) dfo {
	fc.BackendConfig.EvictionNeeded = func() bool { atomic.AddInt64(cycles, 1); return false }
	d := dfo{api: api, cycles: cycles}
	if api == "FailoverOf" {
		f := cache.NewFailoverOf[string](func(c *cache.FailoverConfigOf[string]) {
			c.Name, c.BackendConfig, c.FailedUpdateTTL, c.UpdateTTL = fc.Name, fc.BackendConfig, fc.FailedUpdateTTL, fc.UpdateTTL
			c.SyncUpdate, c.SyncRead, c.MaxStaleness, c.FailHard = fc.SyncUpdate, fc.SyncRead, fc.MaxStaleness, fc.FailHard
		})
		d.get = func(ctx context.Context, key string, build func() (string, error)) (string, error) {
			return f.Get(ctx, []byte(key), func(context.Context) (string, error) { return build() })
		}
		return d
	}
	f := cache.NewFailover(fc.Use)
	d.get = func(ctx context.Context, key string, build func() (string, error)) (string, error) {
		v, err := f.Get(ctx, []byte(key), func(context.Context) (interface{}, error) {
			s, err := build()
			if err != nil {
				return nil, err
			}
			return s, nil
		})
		s, _ := v.(string)
		return s, err
	}
	return d
}

// waitCycles waits until the private backend's janitor has completed n further cleanup cycles (bounded by a watchdog).
func (d dfo) waitCycles(n int64) bool {
	start := atomic.LoadInt64(d.cycles)
	for dl := time.Now().Add(20 * time.Second); time.Now().Before(dl); {
		if atomic.LoadInt64(d.cycles)-start >= n {
			return true
		}
		time.Sleep(200 * time.Microsecond)
	}
	return false
}

// c03DefaultBackend: the too-stale rows of the table on a Failover with its own backend whose janitor is running: an entry
// expired longer than MaxStaleness (but far less than DeleteExpiredAfter) is still the fallback when the rebuild fails.
func c03DefaultBackend(b *Batch, idx int) {
	rng := rand.New(rand.NewSource(b.CaseSeed(idx)))
	for _, api := range []string{"Failover", "FailoverOf"} {
		var cycles int64
		ms := []time.Duration{time.Hour, time.Minute}[rng.Intn(2)]
		fc := cache.FailoverConfig{Name: "dfo", MaxStaleness: ms, SyncUpdate: rng.Intn(2) == 0, SyncRead: rng.Intn(2) == 0, FailedUpdateTTL: -1,
			BackendConfig: cache.Config{DeleteExpiredJobInterval: time.Millisecond}}
		d := newDefaultFailover(api, fc, &cycles)
		age := 2*ms + time.Duration(rng.Int63n(int64(ms)))
		// the value arrives with an expiry far in the past (as after a long outage of the source)
		if _, err := d.get(cache.WithTTL(bg, -age, false), "k", func() (string, error) { return "old", nil }); err != nil {
			b.R.Violate(b, idx, "C03:"+api+":default-backend:prepare", err.Error(), nil)
			continue
		}
		b.R.Eval()
		if !d.waitCycles(3) {
			b.R.Inconcl("C03 default backend: janitor cycles not observed")
			continue
		}
		b.R.Count("runs.default_backend_with_janitor", 1)
		cell := fmt.Sprintf("toostale(%v > MaxStaleness %v)/build=false/fh=false on %s with its own backend, janitor interval 1ms, default DeleteExpiredAfter", age, ms, api)
		builds := 0
		v, err := d.get(bg, "k", func() (string, error) { builds++; return "", errors.New("source down") })
		if err != nil || v != "old" || builds != 1 {
			b.R.Violate(b, idx, "C03:"+api+":default-backend:toostale-fallback-lost", fmt.Sprintf("cell %s: Get returned (%q,%v) builds=%d, documented: the previously cached value after one failed synchronous build", cell, v, err, builds), map[string]interface{}{"cell": cell, "janitor_cycles": atomic.LoadInt64(&cycles)})
		}
		builds = 0
		v, err = d.get(bg, "k", func() (string, error) { builds++; return "new", nil })
		if err != nil || v != "new" || builds != 1 {
			b.R.Violate(b, idx, "C03:"+api+":default-backend:toostale-rebuild", fmt.Sprintf("cell toostale/build=true on %s with its own backend: Get returned (%q,%v) builds=%d", api, v, err, builds), nil)
		}
	}
}

// c05DefaultBackend: many keys fail once on a Failover whose own backend has eviction limits and a busy janitor. The failure
// cache is not subject to the backend's limits: inside FailedUpdateTTL no key is built again.
func c05DefaultBackend(b *Batch, idx int) {
	rng := rand.New(rand.NewSource(b.CaseSeed(idx)))
	api := []string{"Failover", "FailoverOf"}[rng.Intn(2)]
	var cycles int64
	bc := cache.Config{DeleteExpiredJobInterval: time.Millisecond}
	switch rng.Intn(3) {
	case 0:
		bc.CountSoftLimit = uint64(5 + rng.Intn(20))
	case 1:
		bc.HeapInUseSoftLimit = 1
	default:
		bc.CountSoftLimit = 10
		bc.EvictFraction = 0.9
	}
	fc := cache.FailoverConfig{Name: "dfo", FailedUpdateTTL: time.Hour, SyncRead: rng.Intn(2) == 0, BackendConfig: bc}
	d := newDefaultFailover(api, fc, &cycles)
	n := 40 + rng.Intn(80)
	var builds int64
	for i := 0; i < n; i++ {
		_, _ = d.get(bg, fmt.Sprintf("f-%d", i), func() (string, error) { atomic.AddInt64(&builds, 1); return "", errors.New("source down") })
	}
	b.R.Eval()
	if bc.HeapInUseSoftLimit != 0 {
		time.Sleep(30 * time.Millisecond) // a breached heap limit short-circuits the EvictionNeeded call-out: just give the janitors time
	} else if !d.waitCycles(10) {
		b.R.Inconcl("C05 default backend: janitor cycles not observed")
		return
	}
	time.Sleep(5 * time.Millisecond)
	b.R.Count("b.default_backend_sequences", 1)
	b.R.Count("api."+api, 1)
	b.R.Nontrivial(fmt.Sprintf("default-backend/%s/count=%d/heap=%d/frac=%v", api, bc.CountSoftLimit, bc.HeapInUseSoftLimit, bc.EvictFraction))
	again := int64(0)
	notCached := 0
	for i := 0; i < n; i++ {
		_, err := d.get(bg, fmt.Sprintf("f-%d", i), func() (string, error) { atomic.AddInt64(&again, 1); return "", errors.New("source still down") })
		if err == nil || err.Error() != "source down" {
			notCached++
		}
	}
	if builds != int64(n) || again != 0 || notCached != 0 {
		b.R.Violate(b, idx, "C05:"+api+":default-backend:rebuild-within-failedupdatettl", fmt.Sprintf("%s with its own backend (%+v limits, janitor every 1ms, %d cycles seen): %d keys failed once; inside FailedUpdateTTL=1h %d builders were invoked again and %d Gets did not return the remembered failure", api, bc, atomic.LoadInt64(&cycles), n, again, notCached),
			map[string]interface{}{"keys": n, "first_builds": builds})
	}
}

// c04RearmWindow: "able to build again when builders fail", under sustained demand. A key fails once; it is then requested
// every couple of milliseconds. Rejections inside FailedUpdateTTL are fine, but a Get issued later than 2*FailedUpdateTTL
// after the failure (jitter is +-5%) must invoke the builder again - the remembered failure is not prolonged by the
// requests it rejects. Load can only delay the Gets, never make the verdict wrong.
func c04RearmWindow(b *Batch, idx int) {
	rng := rand.New(rand.NewSource(b.CaseSeed(idx)))
	api := []string{"Failover", "FailoverOf"}[rng.Intn(2)]
	fut := time.Duration(20+rng.Intn(40)) * time.Millisecond
	var cycles int64
	fc := cache.FailoverConfig{Name: "rearm", FailedUpdateTTL: fut, SyncRead: rng.Intn(2) == 0, FailHard: rng.Intn(2) == 0}
	d := newDefaultFailover(api, fc, &cycles)
	builds := 0
	failT := time.Time{}
	_, err := d.get(bg, "k", func() (string, error) { builds++; failT = time.Now(); return "", errors.New("source down") })
	b.R.Eval()
	if err == nil || builds != 1 {
		b.R.Violate(b, idx, "C04:"+api+":rearm:first-failure", fmt.Sprintf("first Get returned err=%v builds=%d", err, builds), nil)
		return
	}
	rejected := 0
	gap := time.Duration(1+rng.Intn(4)) * time.Millisecond
	for {
		time.Sleep(gap)
		issued := time.Now()
		before := builds
		v, err := d.get(bg, "k", func() (string, error) { builds++; return "recovered", nil })
		if builds > before {
			if err != nil || v != "recovered" {
				b.R.Violate(b, idx, "C04:"+api+":rearm:rebuild-result", fmt.Sprintf("rebuilding Get returned (%q,%v)", v, err), nil)
			}
			break
		}
		rejected++
		if issued.Sub(failT) > 2*fut {
			b.R.Violate(b, idx, "C04:"+api+":rearm:never-builds-again", fmt.Sprintf("%s FailedUpdateTTL=%v: the key failed once and was requested every %v; a Get issued %v after the failure (%d rejected Gets before it) still returned (%q,%v) without invoking the builder", api, fut, gap, issued.Sub(failT), rejected, v, err),
				map[string]interface{}{"fut": fut.String(), "gap": gap.String(), "rejected": rejected})
			break
		}
	}
	b.R.Count("rearm.cases", 1)
	b.R.Count("rearm.rejected_gets", int64(rejected))
	b.R.Nontrivial(fmt.Sprintf("rearm/%s/fut=%v/gap=%v", api, fut/(20*time.Millisecond)*20*time.Millisecond, gap))
}
