package main

import (
	"context"
	"fmt"
	"math"
	"math/rand"
	"strconv"
	"strings"
	"time"

	"github.com/bool64/cache"
)

// C06: TTL and context travel through Failover as documented.

const c06UpdateTTL = 77 * time.Second // distinct from every value of the TTL alphabet

var c06TTLs = []time.Duration{0, 1, -1, time.Millisecond, -time.Millisecond, time.Hour, -time.Hour, 100 * 365 * 24 * time.Hour, 3 * time.Minute, -5 * time.Second}

func init() {
	register(&Engine{
		ID:       "C06",
		Batches:  func(string) int { return 16 },
		ChildEnv: foChildEnv,
		Run:      runC06,
		Rule: "seeded Failover/FailoverOf cases (steered 7/8, free 1/8) in which every Get carries a caller TTL cell from {none,0,+-1ns,+-1ms,+-1h,100y,...} and every builder invocation performs 0..3 seeded WithTTL(ctx,t,true|false) calls; " +
			"callers cancel / are pre-cancelled / carry deadlines; SkipRead Gets on fresh entries; the harness backend wrapper and builders record TTL(ctx), Err, Done, Deadline and the ctx value; " +
			"oracle = reference fold 'minimal non-zero TTL' for the final store, exact UpdateTTL and stale token for the refresh store, caller TTL after Get, detached context inside background builds and their final Write, " +
			"stored expiry (Walk) within the C10 interval of the expected TTL, SkipRead forces a build whose result is stored; distinct_nontrivial = distinct (config, caller cell, update list, path) combinations judged",
		Required:    []string{"final_writes.checked", "refresh_writes.checked", "bg_builds.checked", "bg_builds.caller_cancelled", "skipread.owner_built", "expiry.checked", "fold.with_cell", "fold.zero_update_on_nonzero", "caller_ttl_after.checked", "path.sync", "path.bg", "built_values.store_checked", "scopes.equal_durations"},
		Assumptions: []string{"without a caller TTL cell the doc promises no propagation: both the backend default and the builder's minimum are accepted", "expiry bounds as in C10 (jitter default 0.1)"},
		Timeout:     func(string) time.Duration { return 45 * time.Minute },
	})
}

func runC06(b *Batch) {
	n := b.Pick(3200, 480000) / b.NBatches
	for i := 0; i < n; i++ {
		if b.Skip(i) {
			continue
		}
		if i%32 == 17 {
			c06Scopes(b, i)
			continue
		}
		c06Case(b, i)
		collectGarbage(i)
	}
}

// c06Scopes: TTL scopes. WithTTL(ctx, d, false) opens a new scope: a builder (or nested Failover) that lowers the TTL of the
// scope it was called with must not change what an outer or sibling scope carries, whatever the durations are (equal
// durations and zero included), and whatever the order of the Gets. The outer caller's values keep their TTL.
func c06Scopes(b *Batch, idx int) {
	rng := rand.New(rand.NewSource(b.CaseSeed(idx)))
	p := foPairings[rng.Intn(3)]
	durs := []time.Duration{0, time.Hour, time.Hour, 2 * time.Hour, time.Minute}
	outerD := durs[rng.Intn(len(durs))]
	innerD := durs[rng.Intn(len(durs))]
	if rng.Intn(2) == 0 {
		innerD = outerD // the same constant used at both levels
	}
	lower := time.Duration(1+rng.Intn(30)) * time.Second
	be := newBackend(p[1], cache.Config{ExpirationJitter: -1})
	var get func(ctx context.Context, key string, build func(ctx context.Context) string) error
	if p[0] == "FailoverOf" {
		f := cache.NewFailoverOf[string](cache.FailoverConfigOf[string]{Backend: be.(ofAdapter).m}.Use)
		get = func(ctx context.Context, key string, build func(ctx context.Context) string) error {
			_, err := f.Get(ctx, []byte(key), func(ctx context.Context) (string, error) { return build(ctx), nil })
			return err
		}
	} else {
		var rw cache.ReadWriter
		switch a := be.(type) {
		case smAdapter:
			rw = a.m
		case syAdapter:
			rw = a.m
		}
		f := cache.NewFailover(cache.FailoverConfig{Backend: rw}.Use)
		get = func(ctx context.Context, key string, build func(ctx context.Context) string) error {
			_, err := f.Get(ctx, []byte(key), func(ctx context.Context) (interface{}, error) { return build(ctx), nil })
			return err
		}
	}
	outer := cache.WithTTL(bg, outerD, false)
	inner := cache.WithTTL(outer, innerD, false)
	sibling := cache.WithTTL(outer, innerD, false)
	desc := map[string]interface{}{"api": p[0], "backend": p[1], "outer": outerD.String(), "inner": innerD.String(), "lowered_to": lower.String()}
	fail := func(what, msg string) {
		b.R.Violate(b, idx, "C06:"+p[0]+":scopes:"+what, fmt.Sprintf("%s: %s %v", what, msg, desc), desc)
	}
	b.R.Eval()
	b.R.Count("scopes.cases", 1)
	if outerD == innerD {
		b.R.Count("scopes.equal_durations", 1)
	}
	b.R.Nontrivial(fmt.Sprintf("scopes/%s/%s/outer=%v/inner=%v", p[0], p[1], outerD, innerD))
	order := rng.Intn(2)
	if order == 0 {
		_ = get(outer, "outer-before", func(context.Context) string { return "v" })
	}
	// the inner Get's builder lowers the TTL of its scope
	_ = get(inner, "inner", func(ctx context.Context) string { cache.WithTTL(ctx, lower, true); return "v" })
	if got := cache.TTL(outer); got != outerD {
		fail("outer-scope-altered", fmt.Sprintf("TTL of the outer scope changed from %v to %v after a builder lowered the TTL of an inner scope", outerD, got))
	}
	if got := cache.TTL(sibling); got != innerD {
		fail("sibling-scope-altered", fmt.Sprintf("TTL of a sibling scope changed from %v to %v", innerD, got))
	}
	if got := cache.TTL(inner); got != lower {
		fail("inner-scope-not-lowered", fmt.Sprintf("TTL of the inner scope is %v after the builder lowered it to %v", got, lower))
	}
	t0 := time.Now()
	_ = get(outer, "outer-after", func(context.Context) string { return "v" })
	t1 := time.Now()
	want := outerD
	if want == 0 {
		want = 5 * time.Minute
	}
	be.Walk(func(k []byte, _ interface{}, exp time.Time) error {
		switch string(k) {
		case "outer-after":
			if exp.Before(t0.Add(want)) || exp.After(t1.Add(want)) {
				fail("outer-value-ttl", fmt.Sprintf("value built for the outer scope (TTL %v) expires in %v", want, exp.Sub(t0).Round(time.Second)))
			}
		case "inner":
			if exp.After(t1.Add(lower)) {
				fail("inner-value-ttl", fmt.Sprintf("value whose builder lowered the TTL to %v expires in %v", lower, exp.Sub(t0).Round(time.Second)))
			}
		}
		return nil
	})
}

func ttlFold(cur time.Duration, upd []ttlUpd) time.Duration {
	for _, u := range upd {
		if !u.Update {
			continue
		}
		if u.TTL != 0 && (cur == 0 || u.TTL < cur) {
			cur = u.TTL
		}
	}
	return cur
}

func parseUpdates(s string) []ttlUpd {
	var out []ttlUpd
	for _, part := range strings.Split(s, ",") {
		if part == "" {
			continue
		}
		i := strings.IndexByte(part, ':')
		v, _ := strconv.ParseInt(part[:i], 10, 64)
		out = append(out, ttlUpd{TTL: time.Duration(v), Update: part[i+1:] == "true"})
	}
	return out
}

func c06Case(b *Batch, idx int) {
	rng := rand.New(rand.NewSource(b.CaseSeed(idx)))
	steered := foSteeredShare(idx)
	o := foGenOpts{steered: steered, maxWorkers: 4, mutate: true}
	if !steered {
		o.maxWorkers = 8
	}
	c := genFoCase(rng, o)
	c.Collide = false
	c.Cfg.UpdateTTL = c06UpdateTTL
	c.Cfg.Observe = rng.Intn(2) == 0
	c.Cfg.SliceVals = c.Cfg.Observe && c.Cfg.API == "Failover" && rng.Intn(2) == 0
	c.Cfg.PtrVals = !c.Cfg.SliceVals && c.Cfg.API == "Failover" && rng.Intn(3) == 0
	sameValues := rng.Intn(3) == 0 // the data source did not change: builders return what is already cached
	c.FailPct = []int{0, 0, 30}[rng.Intn(3)]
	for w := range c.Scripts {
		for g := range c.Scripts[w] {
			sp := &c.Scripts[w][g]
			sp.Mutate = 0
			if rng.Intn(4) != 0 {
				t := c06TTLs[rng.Intn(len(c06TTLs))]
				sp.CallerTTL = &t
			}
			if rng.Intn(5) == 0 {
				sp.SkipRead = true
			}
		}
	}
	// make stale-served background builds likely
	if rng.Intn(2) == 0 {
		c.States[0] = "stale"
		c.Primed[0] = false
	}
	rr := rand.New(rand.NewSource(c.Seed))
	sc := newSched(c.Steered, c.Strategy, rr)
	r := newFoRun(c.Cfg, c.keys(rr), sc)
	defer r.release()
	for k, st := range c.States {
		if st != "absent" {
			r.prepopulate(rr, k, st)
		}
		if c.Primed[k] && r.fo.HasErrors() {
			r.primeFailure(k)
		}
	}
	seed := uint64(c.Seed)
	failPct := uint64(c.FailPct)
	r.script = func(key, inv int) buildOutcome {
		h := mix64(seed ^ uint64(key+1)*0x9E3779B97F4A7C15 ^ uint64(inv+1)*0xC2B2AE3D27D4EB4F)
		out := buildOutcome{OK: h%100 >= failPct, Same: sameValues && (h>>20)%2 == 0}
		nu := int((h >> 8) % 4)
		for u := 0; u < nu; u++ {
			hh := mix64(h + uint64(u)*7919)
			out.TTLs = append(out.TTLs, ttlUpd{TTL: c06TTLs[hh%uint64(len(c06TTLs))], Update: (hh>>16)%4 != 0})
		}
		return out
	}
	if !c.Steered {
		r.holdMax = 200 * time.Microsecond
	}
	outcome := r.execute(c.Scripts)
	b.R.Eval()
	if outcome != "" {
		if outcome == "inconclusive" {
			b.R.Inconcl("C06 executor watchdog")
		}
		return
	}
	x := &foExec{run: r, outcome: outcome, log: r.snapshotLog()}
	fail := func(what, msg string) {
		b.R.Violate(b, idx, "C06:"+c.Cfg.API+":"+what, msg+" ["+c.CfgS+"]", x.witness(c))
	}
	calls := map[int]foEvent{}
	enters := map[int]foEvent{} // by get
	exits := map[int]foEvent{}
	waited := map[int]bool{}
	prepopTok := map[string]bool{}
	for _, e := range x.log {
		switch e.Kind {
		case "get.call":
			calls[e.Get] = e
		case "build.enter":
			enters[e.Get] = e
		case "build.exit":
			exits[e.Get] = e
		case "prepop":
			prepopTok[e.Val] = true
		case "log":
			if strings.Contains(e.Info, "waiting for cache value") {
				waited[e.Get] = true
			}
		}
	}
	hasCell := func(g int) bool { return strings.Contains(calls[g].Info, "callerttl") }
	writesOf := map[int]int{}
	refreshed := map[int]bool{}
	for _, e := range x.log {
		if e.Kind == "log" && strings.Contains(e.Info, "refreshing expired value") {
			refreshed[e.Get] = true
		}
	}
	lastWrite := map[int]foEvent{}
	for _, e := range x.log {
		switch e.Kind {
		case "build.enter":
			call := calls[e.Get]
			if e.CtxGet != e.Get {
				fail("ctx-value-lost", fmt.Sprintf("builder of get %d does not see the caller's context value (got %d)", e.Get, e.CtxGet))
			}
			if hasCell(e.Get) && e.TTL != call.TTL {
				fail("builder-ttl-in", fmt.Sprintf("builder of get %d sees TTL %v, caller set %v", e.Get, time.Duration(e.TTL), time.Duration(call.TTL)))
			}
			if e.BG {
				b.R.Count("bg_builds.checked", 1)
				b.R.Count("path.bg", 1)
				if strings.Contains(call.Info, "cancel") {
					b.R.Count("bg_builds.caller_cancelled", 1)
				}
				if e.CtxErr != "" || e.Done || e.Deadl {
					fail("bg-ctx-not-detached", fmt.Sprintf("background build of get %d runs under a cancelled/deadlined context: err=%q done=%v deadline=%v (caller: %s)", e.Get, e.CtxErr, e.Done, e.Deadl, call.Info))
				}
			} else {
				b.R.Count("path.sync", 1)
			}
		case "build.exit":
			en := enters[e.Get]
			if en.BG && e.CtxErr != "" {
				fail("bg-ctx-not-detached", fmt.Sprintf("background build of get %d: context error %q at builder exit", e.Get, e.CtxErr))
			}
			if hasCell(e.Get) {
				want := ttlFold(time.Duration(calls[e.Get].TTL), parseUpdates(e.Info))
				b.R.Count("fold.with_cell", 1)
				for _, u := range parseUpdates(e.Info) {
					if u.Update && u.TTL == 0 && calls[e.Get].TTL != 0 {
						b.R.Count("fold.zero_update_on_nonzero", 1)
					}
				}
				if time.Duration(e.TTL) != want {
					fail("ttl-fold", fmt.Sprintf("get %d: caller TTL %v, builder updates [%s] -> context TTL %v, want minimal non-zero %v", e.Get, time.Duration(calls[e.Get].TTL), e.Info, time.Duration(e.TTL), want))
				}
			}
		case "be.write":
			if e.Get <= 0 {
				continue
			}
			ex, built := exits[e.Get]
			if e.Key >= 0 && !e.Inject {
				lastWrite[e.Key] = e
			}
			writesOf[e.Get]++
			isFinal := built && ex.Val != "" && e.Val == ex.Val
			if isFinal && refreshed[e.Get] && writesOf[e.Get] == 1 {
				isFinal = false // the first store of a Get that logged "refreshing expired value" is the refresh, whatever it holds
			}
			if isFinal {
				// final store of a built value
				b.R.Count("final_writes.checked", 1)
				b.R.Nontrivial(fmt.Sprintf("%s/cell=%v:%d/upd=%s/bg=%v", c.CfgS, hasCell(e.Get), calls[e.Get].TTL, ex.Info, ex.BG))
				if hasCell(e.Get) {
					want := ttlFold(time.Duration(calls[e.Get].TTL), parseUpdates(ex.Info))
					if time.Duration(e.TTL) != want {
						fail("final-store-ttl", fmt.Sprintf("get %d: final store carries TTL %v, want %v (caller %v, builder updates [%s])", e.Get, time.Duration(e.TTL), want, time.Duration(calls[e.Get].TTL), ex.Info))
					}
				} else {
					okv := e.TTL == 0
					if m := ttlFold(0, parseUpdates(ex.Info)); int64(m) == e.TTL {
						okv = true
					}
					if !okv {
						fail("final-store-ttl", fmt.Sprintf("get %d without caller TTL: final store carries TTL %v (builder updates [%s])", e.Get, time.Duration(e.TTL), ex.Info))
					}
				}
				if time.Duration(e.TTL) == c06UpdateTTL {
					fail("final-store-ttl", fmt.Sprintf("get %d: final store carries UpdateTTL", e.Get))
				}
				if ex.BG && (e.CtxErr != "" || e.Deadl) {
					fail("bg-ctx-not-detached", fmt.Sprintf("final Write of background build (get %d) under cancelled/deadlined context: err=%q deadline=%v", e.Get, e.CtxErr, e.Deadl))
				}
			} else {
				// refresh of a stale value
				b.R.Count("refresh_writes.checked", 1)
				if time.Duration(e.TTL) != c06UpdateTTL {
					fail("refresh-ttl", fmt.Sprintf("get %d: stale value re-stored with TTL %v, want UpdateTTL %v", e.Get, time.Duration(e.TTL), c06UpdateTTL))
				}
				if tokKey(e.Val) != e.Key || e.Val == "" {
					fail("refresh-value", fmt.Sprintf("get %d: refresh stored %q under key %d", e.Get, e.Val, e.Key))
				}
			}
		case "get.ret":
			call := calls[e.Get]
			if hasCell(e.Get) {
				b.R.Count("caller_ttl_after.checked", 1)
				ok := e.TTL == call.TTL
				if ex, built := exits[e.Get]; built {
					want := int64(ttlFold(time.Duration(call.TTL), parseUpdates(ex.Info)))
					if ex.BG {
						ok = ok || e.TTL == want
					} else {
						ok = e.TTL == want
					}
				}
				if !ok || (time.Duration(e.TTL) == c06UpdateTTL) {
					fail("caller-ttl-after", fmt.Sprintf("get %d: caller context TTL after Get is %v (caller set %v)", e.Get, time.Duration(e.TTL), time.Duration(call.TTL)))
				}
			} else if e.TTL != 0 {
				fail("caller-ttl-after", fmt.Sprintf("get %d: caller context had no TTL, after Get it reports %v", e.Get, time.Duration(e.TTL)))
			}
			if call.Skip && !waited[e.Get] {
				if _, built := enters[e.Get]; !built && e.ErrKind != "backend" {
					fail("skipread-no-build", fmt.Sprintf("get %d with SkipRead returned (%q,%q) without invoking the builder", e.Get, e.Val, e.Err))
				} else {
					b.R.Count("skipread.owner_built", 1)
				}
			}
		}
	}
	// every successfully built value is stored (also when the Get carried SkipRead)
	written := map[string]bool{}
	for _, e := range x.log {
		if e.Kind == "be.write" {
			written[e.Val] = true
		}
	}
	for g, ex := range exits {
		if ex.Val != "" {
			b.R.Count("built_values.store_checked", 1)
			wantStores := 1
			if refreshed[g] {
				wantStores = 2 // the temporary re-store of the stale value and the final store of the built one
			}
			if !written[ex.Val] || writesOf[g] != wantStores {
				fail("built-value-not-stored", fmt.Sprintf("get %d (SkipRead=%v, %s) built %s: %d backend stores by this Get, want %d (refresh logged: %v)", g, calls[g].Skip, ex.Note, ex.Val, writesOf[g], wantStores, refreshed[g]))
			}
		}
	}
	// stored expiry of every key whose last store was a final store of a built value
	for k, w := range lastWrite {
		ex, built := exits[w.Get]
		if !built || ex.Val != w.Val {
			continue
		}
		T := time.Duration(w.TTL)
		if T == 0 {
			T = 5 * time.Minute
		}
		var E int64
		found := false
		r.be.Walk(func(kb []byte, v interface{}, exp timeT) error {
			if string(kb) == string(r.keys[k]) {
				found = true
				E = exp.UnixNano()
				if tv, _ := tokOf(v); tv != w.Val {
					found = false
				}
			}
			return nil
		})
		if !found {
			fail("stored-value", fmt.Sprintf("key %d: last store was %s but the backend does not hold it", k, w.Val))
			continue
		}
		b.R.Count("expiry.checked", 1)
		hw := math.Abs(float64(T))*0.05 + 2 + math.Abs(float64(T))*math.Pow(2, -52)
		if float64(E-w.W0-int64(T)) < -hw || float64(E-w.W-int64(T)) > hw {
			fail("stored-expiry", fmt.Sprintf("key %d: stored expiry %d outside [%d,%d]+-%.0f for TTL %v", k, E, w.W0+int64(T), w.W+int64(T), hw, T))
		}
	}
	if idx == 0 && b.Index == 0 {
		b.R.Sample(x.witness(c))
	}
}
