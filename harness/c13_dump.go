package main

import (
	"bytes"
	"fmt"
	"io"
	"math/rand"
	"reflect"
	"runtime"
	"sort"
	"sync"
	"time"

	"github.com/bool64/cache"

	modela "verifharness/dupa/model"
	modelb "verifharness/dupb/model"
)

// C13: Dump followed by Restore reproduces the cache exactly.

// GobVal is a registered struct value type used by the dump/transfer engines.
type GobVal struct {
	Name  string
	N     int64
	Tags  []string
	Attrs map[string]int
	Child *GobChild
}

// GobChild is nested in GobVal.
type GobChild struct {
	ID   int
	Note string
}

// GobOther is a second registered type.
type GobOther struct {
	A float64
	B []byte
}

func registerGobTypes() {
	cache.GobRegister(GobVal{}, GobOther{})
	// two distinct types with the same package-qualified short name
	cache.GobRegister(modela.Item{})
	cache.GobRegister(modelb.Item{})
}

type snapEntry struct {
	Val interface{}
	E   int64
}

func snapshot(be Backend) (map[string]snapEntry, int, error, []string) {
	m := map[string]snapEntry{}
	var dups []string
	n, err := be.Walk(func(k []byte, v interface{}, exp time.Time) error {
		if _, ok := m[string(k)]; ok {
			dups = append(dups, string(k))
		}
		m[string(k)] = snapEntry{Val: v, E: exp.UnixNano()}
		return nil
	})
	return m, n, err, dups
}

func randGobValue(rng *rand.Rand, allowNil bool, n int) interface{} {
	switch rng.Intn(11) {
	case 9:
		return modela.Item{A: n + 1}
	case 10:
		return modelb.Item{B: fmt.Sprintf("b%d", n)}
	case 0:
		if allowNil {
			return nil
		}
		return fmt.Sprintf("s%d", n)
	case 1:
		return ""
	case 2:
		return int(0)
	case 3:
		return GobVal{} // zero struct
	case 4:
		return GobVal{Name: fmt.Sprintf("n%d", n), N: int64(n) + 1, Tags: []string{"a", fmt.Sprint(n)}, Attrs: map[string]int{"x": n + 1}, Child: &GobChild{ID: n + 1, Note: "c"}}
	case 5:
		return map[string]interface{}{"k": fmt.Sprint(n), "n": int64(n) + 1}
	case 6:
		return []interface{}{fmt.Sprint(n), int64(n) + 1}
	case 7:
		return GobOther{A: float64(n) + 0.5, B: []byte{1, byte(n)}}
	default:
		return fmt.Sprintf("s%d", n)
	}
}

func randKeySet(rng *rand.Rand, n int) [][]byte {
	seen := map[string]bool{}
	var keys [][]byte
	for len(keys) < n {
		l := rng.Intn(65)
		if rng.Intn(3) == 0 {
			l = rng.Intn(4)
		}
		k := make([]byte, l)
		if rng.Intn(2) == 0 {
			rng.Read(k)
		} else {
			for i := range k {
				k[i] = byte('a' + rng.Intn(26))
			}
		}
		if seen[string(k)] {
			continue
		}
		seen[string(k)] = true
		keys = append(keys, k)
	}
	return keys
}

func init() {
	register(&Engine{
		ID:      "C13",
		Batches: func(tier string) int { return 16 },
		Run:     runC13,
		Rule: "seeded entry sets (0..400 entries, keys of length 0..64 text/binary, values nil/\"\"/0/zero struct/populated registered struct/map/slice, expiry none/+1h/-1h, LRU/LFU counters touched) " +
			"dumped and restored across every pairing ShardedMap<->SyncMap and ShardedMapOf[V]->ShardedMapOf[V] (V=string, struct), relayed through 1..4 instances; Walk/Read of every relay compared with the source; " +
			"truncated streams must restore a subset without panic; distinct_nontrivial = distinct (pairing, size class, chain length, value-kind set) cells with >=3 entries",
		Required: []string{"bulk.transfers", "failed_dumps_before", "concurrent_dumps", "roundtrips", "entries.compared", "truncations", "pair.ShardedMap->SyncMap", "pair.SyncMap->ShardedMap", "pair.SyncMap->SyncMap", "pair.ShardedMap->ShardedMap", "pair.Of[string]", "pair.Of[struct]", "receivers_with_wiped_history"},
		Assumptions: []string{"reflect.DeepEqual on the harness' value alphabet is the equality of values (alphabet avoids gob's nil-vs-empty ambiguities)"},
	})
}

func runC13(b *Batch) {
	registerGobTypes()
	n := b.Pick(6000, 1600000) / b.NBatches
	for i := 0; i < n; i++ {
		if b.Skip(i) {
			continue
		}
		i := i
		b.Guard(i, "C13", func() {
			defer func() {
				if r := recover(); r != nil {
					b.R.Violate(b, i, "C13:panic", fmt.Sprintf("panic during dump/restore: %v", r), nil)
				}
			}()
			c13Case(b, i)
		})
		collectGarbage(i)
	}
	nb := b.Pick(16, 320) / b.NBatches
	if nb == 0 {
		nb = 1
	}
	for i := 0; i < nb; i++ {
		if !b.Skip(n + i) {
			i := i
			b.Guard(n+i, "C13", func() { c13Bulk(b, n+i) })
		}
	}
}


func sizeClass(n int) string {
	switch {
	case n == 0:
		return "0"
	case n == 1:
		return "1"
	case n <= 5:
		return "2-5"
	case n <= 50:
		return "6-50"
	}
	return ">50"
}

func c13Case(b *Batch, idx int) {
	rng := rand.New(rand.NewSource(b.CaseSeed(idx)))
	b.R.Eval()
	n := 0
	switch rng.Intn(10) {
	case 0:
		n = 0
	case 1:
		n = 1
	case 2, 3, 4:
		n = 2 + rng.Intn(4)
	case 5, 6, 7, 8:
		n = 6 + rng.Intn(45)
	default:
		n = 51 + rng.Intn(350)
	}
	chain := 1 + rng.Intn(4)
	family := rng.Intn(4) // 0,1: interface family; 2: Of[string]; 3: Of[struct]
	strategies := []cache.EvictionStrategy{cache.EvictMostExpired, cache.EvictLeastRecentlyUsed, cache.EvictLeastFrequentlyUsed}
	cfg := cache.Config{TimeToLive: cache.UnlimitedTTL, EvictionStrategy: strategies[rng.Intn(3)]}
	keys := randKeySet(rng, n)
	ttlOpt := func() (ctxTTL time.Duration) {
		switch rng.Intn(6) {
		case 0, 1:
			return 0
		case 2:
			return time.Hour
		case 3:
			return -100 * 365 * 24 * time.Hour // expiry before 1970: negative timestamp
		case 4:
			return 100 * 365 * 24 * time.Hour
		}
		return -time.Hour
	}
	switch family {
	case 2:
		b.R.Count("pair.Of[string]", 1)
		c13Generic[string](b, idx, rng, cfg, keys, chain, "Of[string]", func(i int) string {
			if rng.Intn(6) == 0 {
				return ""
			}
			return fmt.Sprintf("s%d", i)
		}, ttlOpt)
		return
	case 3:
		b.R.Count("pair.Of[struct]", 1)
		c13Generic[GobVal](b, idx, rng, cfg, keys, chain, "Of[struct]", func(i int) GobVal {
			if rng.Intn(6) == 0 {
				return GobVal{}
			}
			return GobVal{Name: fmt.Sprint(i), N: int64(i) + 1, Tags: []string{"t"}, Attrs: map[string]int{"a": i + 1}, Child: &GobChild{ID: i + 1}}
		}, ttlOpt)
		return
	}
	kinds := []string{"ShardedMap", "SyncMap"}
	srcKind := kinds[rng.Intn(2)]
	src := newBackend(srcKind, cfg)
	valKinds := map[string]bool{}
	for i, k := range keys {
		v := randGobValue(rng, true, i)
		valKinds[fmt.Sprintf("%T", v)] = true
		ctx := bg
		if t := ttlOpt(); t != 0 {
			ctx = cache.WithTTL(bg, t, false)
		}
		src.Write(ctx, clone(k), v)
	}
	// touch some entries so LRU/LFU counters are non-zero
	for _, k := range keys {
		if rng.Intn(2) == 0 {
			src.Read(bg, k)
		}
	}
	srcSnap, _, _, _ := snapshot(src)
	cur := src
	curKind := srcKind
	pairs := ""
	for hop := 0; hop < chain; hop++ {
		dstKind := kinds[rng.Intn(2)]
		dcfg := cfg
		if rng.Intn(2) == 0 {
			dcfg.TimeToLive = 0 // receiver with the default finite TTL: restored expiries must not depend on it
		}
		if rng.Intn(3) == 0 {
			dcfg.CountSoftLimit = uint64(1 + rng.Intn(5)) // soft limits are enforced by the (hourly) cleanup job only
		}
		dst := newBackend(dstKind, dcfg)
		pair := curKind + "->" + dstKind
		pairs += pair + ";"
		b.R.Count("pair."+pair, 1)
		if rng.Intn(4) == 0 && len(srcSnap) > 0 {
			// a dump that fails half-way (broken pipe) must not affect later dumps
			_, ferr := cur.Dump(&brokenWriter{left: rng.Intn(200)})
			if ferr != nil {
				b.R.Count("failed_dumps_before", 1)
			}
		}
		if rng.Intn(3) == 0 {
			dcfg.DeleteExpiredAfter = time.Millisecond // what the receiver's janitor would remove later is not Restore's business
			dst = newBackend(dstKind, dcfg)
		}
		if rng.Intn(4) == 0 {
			// the receiver has a history: it held other (expiring) entries that were wiped by DeleteAll before the Restore
			for i := 0; i < 5+rng.Intn(60); i++ {
				_ = dst.Write(cache.WithTTL(bg, time.Duration(1+rng.Intn(100))*time.Minute, false), []byte(fmt.Sprintf("was-here-%d", i)), "x")
			}
			dst.DeleteAll(bg)
			b.R.Count("receivers_with_wiped_history", 1)
		}
		var buf bytes.Buffer
		var dn int
		var derr error
		if rng.Intn(4) == 0 {
			// two dumps of the same cache at the same time: both must be complete
			var buf2 bytes.Buffer
			var wg sync.WaitGroup
			var dn2 int
			var derr2 error
			wg.Add(2)
			go func() { defer wg.Done(); dn, derr = cur.Dump(&slowWriter{w: &buf}) }()
			go func() { defer wg.Done(); dn2, derr2 = cur.Dump(&slowWriter{w: &buf2}) }()
			wg.Wait()
			b.R.Count("concurrent_dumps", 1)
			other := newBackend(dstKind, dcfg)
			rn2, rerr2 := other.Restore(&buf2)
			if derr2 != nil || rerr2 != nil || dn2 != len(srcSnap) || rn2 != len(srcSnap) {
				b.R.Violate(b, idx, "C13:"+pair+":concurrent-dump", fmt.Sprintf("second concurrent dump: Dump=(%d,%v) Restore=(%d,%v) entries=%d", dn2, derr2, rn2, rerr2, len(srcSnap)), nil)
			}
			c13Compare(b, srcSnap, src, other, func(what, msg string) {
				b.R.Violate(b, idx, "C13:"+pair+":concurrent-dump-"+what, msg, map[string]interface{}{"pair": pair, "n": n})
			})
		} else {
			dn, derr = cur.Dump(&buf)
		}
		stream := append([]byte(nil), buf.Bytes()...)
		rn, rerr := dst.Restore(&buf)
		b.R.Count("roundtrips", 1)
		w := map[string]interface{}{"pair": pair, "n": n, "hop": hop, "keys": keyLabels(keys, 12)}
		fail := func(what, msg string) {
			b.R.Violate(b, idx, "C13:"+pair+":"+what, fmt.Sprintf("%s %s: %s", pair, what, msg), w)
		}
		if derr != nil || rerr != nil {
			fail("error", fmt.Sprintf("Dump err=%v Restore err=%v", derr, rerr))
			return
		}
		if dn != len(srcSnap) || rn != len(srcSnap) {
			fail("count", fmt.Sprintf("Dump=%d Restore=%d entries=%d", dn, rn, len(srcSnap)))
		}
		c13Compare(b, srcSnap, src, dst, fail)
		// truncated stream into a fresh cache
		if len(stream) > 0 && rng.Intn(3) == 0 {
			cut := rng.Intn(len(stream))
			tdst := newBackend(dstKind, cfg)
			tn, terr := tdst.Restore(bytes.NewReader(stream[:cut]))
			b.R.Count("truncations", 1)
			tsnap, _, _, _ := snapshot(tdst)
			if len(tsnap) != tn {
				fail("trunc-count", fmt.Sprintf("truncated restore reported %d (err=%v), holds %d", tn, terr, len(tsnap)))
			}
			for k, e := range tsnap {
				s, ok := srcSnap[k]
				if !ok || !reflect.DeepEqual(s.Val, e.Val) || s.E != e.E {
					fail("trunc-subset", fmt.Sprintf("truncated restore produced entry %x=%v/%d not in source", k, e.Val, e.E))
					break
				}
			}
		}
		cur, curKind = dst, dstKind
	}
	if n >= 3 {
		vk := make([]string, 0)
		for k := range valKinds {
			vk = append(vk, k)
		}
		sort.Strings(vk)
		b.R.Nontrivial(fmt.Sprintf("%s/%s/%d/%v", pairs, sizeClass(n), chain, vk))
	}
	if idx == 0 {
		b.R.Sample(map[string]interface{}{"pairs": pairs, "n": n, "keys": keyLabels(keys, 8)})
	}
}

func keyLabels(keys [][]byte, max int) []string {
	var out []string
	for i, k := range keys {
		if i >= max {
			break
		}
		out = append(out, keyLabel(k))
	}
	return out
}

func c13Compare(b *Batch, srcSnap map[string]snapEntry, src, dst Backend, fail func(what, msg string)) {
	dstSnap, wn, werr, dups := snapshot(dst)
	if werr != nil || len(dups) > 0 || wn != len(dstSnap) {
		fail("walk", fmt.Sprintf("target walk n=%d err=%v dups=%d", wn, werr, len(dups)))
	}
	if len(dstSnap) != len(srcSnap) {
		fail("keyset", fmt.Sprintf("target has %d entries, source %d", len(dstSnap), len(srcSnap)))
	}
	for k, s := range srcSnap {
		d, ok := dstSnap[k]
		b.R.Count("entries.compared", 1)
		if !ok {
			fail("keyset", fmt.Sprintf("key %x (len %d) missing in target", k, len(k)))
			return
		}
		if !reflect.DeepEqual(s.Val, d.Val) {
			fail("value", fmt.Sprintf("key %x: value %#v restored as %#v", k, s.Val, d.Val))
			return
		}
		if s.E != d.E {
			fail("expiry", fmt.Sprintf("key %x: expiry %d restored as %d", k, s.E, d.E))
			return
		}
		sv, serr := src.Read(bg, []byte(k))
		dv, derr := dst.Read(bg, []byte(k))
		if errClass(serr) != errClass(derr) || !reflect.DeepEqual(sv, dv) {
			fail("read", fmt.Sprintf("key %x: source Read (%v,%v) target Read (%v,%v)", k, sv, serr, dv, derr))
			return
		}
	}
}

func c13Generic[V any](b *Batch, idx int, rng *rand.Rand, cfg cache.Config, keys [][]byte, chain int, name string, gen func(i int) V, ttlOpt func() time.Duration) {
	type ent struct {
		v V
		e int64
	}
	snap := func(m *cache.ShardedMapOf[V]) map[string]ent {
		r := map[string]ent{}
		m.Walk(func(e cache.EntryOf[V]) error {
			r[string(e.Key())] = ent{e.Value(), e.ExpireAt().UnixNano()}
			return nil
		})
		return r
	}
	src := cache.NewShardedMapOf[V](cfg.Use)
	for i, k := range keys {
		ctx := bg
		if t := ttlOpt(); t != 0 {
			ctx = cache.WithTTL(bg, t, false)
		}
		src.Write(ctx, clone(k), gen(i))
		if rng.Intn(2) == 0 {
			src.Read(bg, k)
		}
	}
	srcSnap := snap(src)
	cur := src
	w := map[string]interface{}{"pair": name, "n": len(keys), "keys": keyLabels(keys, 12)}
	fail := func(what, msg string) {
		b.R.Violate(b, idx, "C13:"+name+":"+what, fmt.Sprintf("%s %s: %s", name, what, msg), w)
	}
	for hop := 0; hop < chain; hop++ {
		dcfg := cfg
		if rng.Intn(2) == 0 {
			dcfg.TimeToLive = 0
		}
		if rng.Intn(3) == 0 {
			dcfg.CountSoftLimit = uint64(1 + rng.Intn(5))
		}
		dst := cache.NewShardedMapOf[V](dcfg.Use)
		var buf bytes.Buffer
		dn, derr := cur.Dump(&buf)
		stream := append([]byte(nil), buf.Bytes()...)
		rn, rerr := dst.Restore(&buf)
		b.R.Count("roundtrips", 1)
		if derr != nil || rerr != nil {
			fail("error", fmt.Sprintf("Dump err=%v Restore err=%v", derr, rerr))
			return
		}
		if dn != len(srcSnap) || rn != len(srcSnap) {
			fail("count", fmt.Sprintf("Dump=%d Restore=%d entries=%d", dn, rn, len(srcSnap)))
		}
		dstSnap := snap(dst)
		if len(dstSnap) != len(srcSnap) {
			fail("keyset", fmt.Sprintf("target has %d entries, source %d", len(dstSnap), len(srcSnap)))
		}
		for k, s := range srcSnap {
			b.R.Count("entries.compared", 1)
			d, ok := dstSnap[k]
			if !ok {
				fail("keyset", fmt.Sprintf("key %x missing in target", k))
				return
			}
			if !reflect.DeepEqual(s.v, d.v) {
				fail("value", fmt.Sprintf("key %x: %#v restored as %#v", k, s.v, d.v))
				return
			}
			if s.e != d.e {
				fail("expiry", fmt.Sprintf("key %x: expiry %d restored as %d", k, s.e, d.e))
				return
			}
			sv, serr := src.Read(bg, []byte(k))
			dv, derr := dst.Read(bg, []byte(k))
			if errClass(serr) != errClass(derr) || !reflect.DeepEqual(sv, dv) {
				fail("read", fmt.Sprintf("key %x: source Read (%v,%v) target (%v,%v)", k, sv, serr, dv, derr))
				return
			}
		}
		if len(stream) > 0 && rng.Intn(3) == 0 {
			cut := rng.Intn(len(stream))
			tdst := cache.NewShardedMapOf[V](cfg.Use)
			tn, _ := tdst.Restore(bytes.NewReader(stream[:cut]))
			b.R.Count("truncations", 1)
			ts := snap(tdst)
			if len(ts) != tn {
				fail("trunc-count", fmt.Sprintf("truncated restore reported %d, holds %d", tn, len(ts)))
			}
			for k, e := range ts {
				s, ok := srcSnap[k]
				if !ok || !reflect.DeepEqual(s.v, e.v) || s.e != e.e {
					fail("trunc-subset", fmt.Sprintf("truncated restore produced entry %x not in source", k))
					break
				}
			}
		}
		cur = dst
	}
	if len(keys) >= 3 {
		b.R.Nontrivial(fmt.Sprintf("%s/%s/%d", name, sizeClass(len(keys)), chain))
	}
}

// slowWriter yields between writes so that two concurrent dumps interleave.
type slowWriter struct{ w io.Writer }

func (s *slowWriter) Write(p []byte) (int, error) {
	runtime.Gosched()
	return s.w.Write(p)
}

// brokenWriter accepts a few bytes and then fails like a closed connection.
type brokenWriter struct{ left int }

func (w *brokenWriter) Write(p []byte) (int, error) {
	if w.left <= 0 {
		return 0, io.ErrClosedPipe
	}
	if len(p) > w.left {
		n := w.left
		w.left = 0
		return n, io.ErrClosedPipe
	}
	w.left -= len(p)
	return len(p), nil
}
