package main

func typesHashChild(a []string) {}
func exporterChild(a []string)  {}
