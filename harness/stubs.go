package main

func scanRaceLogs(id, scratch string, bi int, agg *Result) {}
func typesHashChild(a []string)                             {}
func exporterChild(a []string)                              {}
