package main

import (
	"math"
	"context"
	"fmt"
	"math/rand"
	"sort"
	"strings"
	"time"
)

// C03: a lone Get follows the documented stale/failure decision table. The table is finite and enumerated completely.

type c03Cell struct {
	State   string // absent fresh stale toostale
	FC      bool   // failure cached
	SU, FH  bool
	MS      time.Duration
	FUT     time.Duration
	BuildOK bool
}

func (c c03Cell) String() string {
	return fmt.Sprintf("%s/fc=%v/su=%v/fh=%v/ms=%v/fut=%v/build=%v", c.State, c.FC, c.SU, c.FH, c.MS, c.FUT, c.BuildOK)
}

type c03Obs struct {
	Result        string // prepop, new, builderr, cachederr, zero, other:<..>
	Builds        int
	BuiltBeforeRet bool
	Backend       string // new, prepop-fresh, prepop-expired, absent, other
	FailCached    bool
	Locked        int
}

func (o c03Obs) class() string {
	return fmt.Sprintf("res=%s builds=%d before=%v backend=%s failcached=%v locked=%d", o.Result, o.Builds, o.BuiltBeforeRet, o.Backend, o.FailCached, o.Locked)
}

// c03Expected returns the acceptable outcome classes of a cell (from README "Failover Cache" and the FailoverConfig docs).
func c03Expected(c c03Cell) []c03Obs {
	hasStale := c.State == "stale" || c.State == "toostale"
	failCachedAfter := func(buildFailed bool) bool { return c.FC || (buildFailed && c.FUT != -1) }
	switch {
	case c.State == "fresh":
		return []c03Obs{{Result: "prepop", Builds: 0, Backend: "prepop-fresh", FailCached: c.FC}}
	case c.FC:
		// failure cached: no build; the cached error is served, or (README ambiguity) the stale value unless FailHard
		be := "absent"
		if c.State == "stale" {
			be = "prepop-fresh" // the stale value was refreshed with UpdateTTL before the failure cache was consulted
		} else if c.State == "toostale" {
			be = "prepop-expired"
		}
		out := []c03Obs{{Result: "cachederr", Builds: 0, Backend: be, FailCached: true}}
		if hasStale && !c.FH {
			out = append(out, c03Obs{Result: "prepop", Builds: 0, Backend: be, FailCached: true})
			if c.State == "stale" {
				out = append(out, c03Obs{Result: "prepop", Builds: 0, Backend: "prepop-expired", FailCached: true})
			}
		}
		if c.State == "stale" {
			out = append(out, c03Obs{Result: "cachederr", Builds: 0, Backend: "prepop-expired", FailCached: true})
		}
		return out
	case c.State == "absent" || c.State == "toostale":
		if c.BuildOK {
			return []c03Obs{{Result: "new", Builds: 1, BuiltBeforeRet: true, Backend: "new"}}
		}
		be := "absent"
		if c.State == "toostale" {
			be = "prepop-expired"
		}
		if c.State == "toostale" && !c.FH {
			return []c03Obs{{Result: "prepop", Builds: 1, BuiltBeforeRet: true, Backend: be, FailCached: failCachedAfter(true)}}
		}
		return []c03Obs{{Result: "builderr", Builds: 1, BuiltBeforeRet: true, Backend: be, FailCached: failCachedAfter(true)}}
	default: // acceptable stale value, no failure cached
		if !c.SU {
			// stale value returned immediately, exactly one build by quiescence (before or after return)
			if c.BuildOK {
				return []c03Obs{{Result: "prepop", Builds: 1, BuiltBeforeRet: false, Backend: "new"}, {Result: "prepop", Builds: 1, BuiltBeforeRet: true, Backend: "new"}}
			}
			return []c03Obs{{Result: "prepop", Builds: 1, BuiltBeforeRet: false, Backend: "prepop-fresh", FailCached: failCachedAfter(true)},
				{Result: "prepop", Builds: 1, BuiltBeforeRet: true, Backend: "prepop-fresh", FailCached: failCachedAfter(true)}}
		}
		if c.BuildOK {
			return []c03Obs{{Result: "new", Builds: 1, BuiltBeforeRet: true, Backend: "new"}}
		}
		if c.FH {
			return []c03Obs{{Result: "builderr", Builds: 1, BuiltBeforeRet: true, Backend: "prepop-fresh", FailCached: failCachedAfter(true)}}
		}
		return []c03Obs{{Result: "prepop", Builds: 1, BuiltBeforeRet: true, Backend: "prepop-fresh", FailCached: failCachedAfter(true)}}
	}
}

func c03Cells() []c03Cell {
	var cells []c03Cell
	for _, st := range []string{"absent", "fresh", "stale", "toostale"} {
		for _, fc := range []bool{false, true} {
			for _, su := range []bool{false, true} {
				for _, fh := range []bool{false, true} {
					for _, ms := range []time.Duration{0, time.Hour} {
						for _, fut := range []time.Duration{0, -1} {
							for _, ok := range []bool{true, false} {
								if st == "toostale" && ms == 0 {
									continue // without MaxStaleness every expired value is acceptable
								}
								if fc && fut == -1 {
									continue // failures are never cached
								}
								cells = append(cells, c03Cell{st, fc, su, fh, ms, fut, ok})
							}
						}
					}
				}
			}
		}
	}
	return cells
}

func init() {
	register(&Engine{
		ID:         "C03",
		Batches:    func(string) int { return 4 },
		Run:        runC03,
		Exhaustive: true,
		Rule: "complete enumeration of the decision table: entry {absent,fresh,stale-ok,too-stale} x failure cache {empty,hit} x SyncUpdate x FailHard x MaxStaleness {0,1h} x FailedUpdateTTL {default,-1} x builder {ok,err} " +
			"(inconsistent combinations skipped and counted) x pairing {Failover/ShardedMap, Failover/SyncMap, FailoverOf/ShardedMapOf} x 4 repetitions alternating SyncRead off/on (thorough: 12 and custom UpdateTTL/FailedUpdateTTL values); " +
			"each lone Get is judged against the documented outcome (result class, builder invocation count and timing, backend content and failure cache after quiescence, no lock left) and all pairings/repetitions of a cell must agree; " +
			"distinct_nontrivial = number of distinct consistent cells executed (every cell is non-trivial: it fixes one row of the table)",
		Required:    []string{"cells.executed", "runs", "runs.entry_deleted_during_build", "runs.noncomparable_values", "runs.after_recovered_builder_panic", "runs.default_backend_with_janitor", "runs.extreme_max_staleness"},
		Assumptions: []string{"README ambiguity for 'failure cached + stale value available': both the cached error and the stale value are accepted", "entry states use TTL margins (>=1s / 1h MaxStaleness / 2h+ too stale)"},
	})
}

func runC03(b *Batch) {
	if b.Only < 0 {
		for i := 0; i < b.Pick(2, 96); i++ {
			c03DefaultBackend(b, 900000+i)
		}
	} else if b.Only >= 900000 {
		c03DefaultBackend(b, b.Only)
		return
	}
	cells := c03Cells()
	reps := b.Pick(4, 48)
	if b.Index == 0 {
		b.R.Count("cells.skipped_inconsistent", int64(256-len(cells)))
	}
	for ci, cell := range cells {
		if ci%b.NBatches != b.Index || b.Skip(ci) {
			continue
		}
		b.R.Count("cells.executed", 1)
		b.R.Nontrivial(cell.String())
		exp := c03Expected(cell)
		var expS []string
		for _, e := range exp {
			expS = append(expS, e.class())
		}
		classes := map[string][]string{}
		for _, p := range foPairings {
			for rep := 0; rep < reps; rep++ {
				rng := rand.New(rand.NewSource(b.CaseSeed(ci*1000 + rep)))
				cfg := foConfig{API: p[0], BackendKind: p[1], SyncUpdate: cell.SU, FailHard: cell.FH, MaxStaleness: cell.MS, FailedUpdateTTL: cell.FUT}
				cfg.SyncRead = rep%2 == 1 // not a dimension of the table: the outcome must not depend on it
				if b.Thorough() && rep >= 3 {
					cfg.UpdateTTL = []time.Duration{10 * time.Minute, time.Hour}[rep%2]
					if cell.FUT == 0 {
						cfg.FailedUpdateTTL = []time.Duration{time.Minute, 24 * time.Hour}[rep%2]
					}
				}
				if cell.MS > 0 && cell.State != "toostale" && rep%4 == 2 {
					cfg.MaxStaleness = time.Duration(math.MaxInt64) // "any staleness is acceptable": same row as a finite bound that is not exceeded
					b.R.Count("runs.extreme_max_staleness", 1)
				}
				cfg.Observe = rep%3 == 2 // nor on ObserveMutability, whatever the value type (the interface API stores non-comparable values too)
				cfg.SliceVals = cfg.Observe && p[0] == "Failover"
				if cfg.SliceVals {
					b.R.Count("runs.noncomparable_values", 1)
				}
				variant := []string{"", "precancel", "callerttl", "deadline"}[rep%4]
				obs, x := c03Run(cfg, cell, rng, variant, false)
				defer x.release()
				b.R.Eval()
				b.R.Count("runs", 1)
				cl := obs.class()
				classes[cl] = append(classes[cl], p[0]+"/"+p[1])
				ok := false
				for _, e := range expS {
					if e == cl {
						ok = true
					}
				}
				if !ok {
					sig := fmt.Sprintf("C03:%s:%s/fc=%v/build=%v/fh=%v:res=%s", p[0], cell.State, cell.FC, cell.BuildOK, cell.FH, obs.Result)
					b.R.Violate(b, ci, sig, fmt.Sprintf("cell %s on %s/%s: observed {%s}, documented {%s}", cell, p[0], p[1], cl, strings.Join(expS, " | ")),
						map[string]interface{}{"cell": cell.String(), "pairing": p, "events": x.snapshotLog()})
				}
				if ci == 0 && rep == 0 && p[1] == "ShardedMap" {
					b.R.Sample(map[string]interface{}{"cell": cell.String(), "observed": cl, "documented": expS})
				}
			}
		}
		// the documented outcome refers to the value that was cached when the Get started: it must not change when the entry
		// disappears during the build (the builder, a call-out, deletes it)
		if (cell.State == "stale" || cell.State == "toostale") && !cell.FC {
			for _, p := range foPairings {
				rng := rand.New(rand.NewSource(b.CaseSeed(ci*1000 + 777)))
				cfg := foConfig{API: p[0], BackendKind: p[1], SyncUpdate: cell.SU, FailHard: cell.FH, MaxStaleness: cell.MS, FailedUpdateTTL: cell.FUT}
				obs, x := c03Run(cfg, cell, rng, "", true)
				b.R.Eval()
				b.R.Count("runs.entry_deleted_during_build", 1)
				okRes := false
				for _, e := range exp {
					if e.Result == obs.Result && e.Builds == obs.Builds {
						okRes = true
					}
				}
				if !okRes {
					sig := fmt.Sprintf("C03:%s:%s/fc=%v/build=%v/fh=%v:deleted-during-build:res=%s", p[0], cell.State, cell.FC, cell.BuildOK, cell.FH, obs.Result)
					b.R.Violate(b, ci, sig, fmt.Sprintf("cell %s on %s/%s with the entry deleted while the builder runs: observed result %s builds=%d, documented {%s}", cell, p[0], p[1], obs.Result, obs.Builds, strings.Join(expS, " | ")),
						map[string]interface{}{"cell": cell.String(), "pairing": p, "events": x.snapshotLog()})
				}
				x.release()
			}
		}
		// ... nor depend on the key's history: an earlier Get of the same key whose builder panicked leaves nothing behind
		for _, p := range foPairings {
			rng := rand.New(rand.NewSource(b.CaseSeed(ci*1000 + 888)))
			cfg := foConfig{API: p[0], BackendKind: p[1], SyncUpdate: cell.SU, FailHard: cell.FH, MaxStaleness: cell.MS, FailedUpdateTTL: cell.FUT}
			obs, x := c03Run(cfg, cell, rng, "panic-first", false)
			b.R.Eval()
			if obs.Result == "inconclusive-timeout" {
				b.R.Inconcl("C03 lone Get after a recovered builder panic did not return within the watchdog, no key lock held")
				x.release()
				continue
			}
			b.R.Count("runs.after_recovered_builder_panic", 1)
			okRes := false
			for _, e := range exp {
				if e.Result == obs.Result && e.Builds == obs.Builds {
					okRes = true
				}
			}
			if !okRes {
				sig := fmt.Sprintf("C03:%s:%s/fc=%v/build=%v/fh=%v:after-builder-panic:res=%s", p[0], cell.State, cell.FC, cell.BuildOK, cell.FH, obs.Result)
				b.R.Violate(b, ci, sig, fmt.Sprintf("cell %s on %s/%s after an earlier Get of the key whose builder panicked (recovered by its caller): observed result %s builds=%d, documented {%s}", cell, p[0], p[1], obs.Result, obs.Builds, strings.Join(expS, " | ")),
					map[string]interface{}{"cell": cell.String(), "pairing": p, "events": x.snapshotLog()})
			}
			x.release()
		}
		// "determined by": all pairings and repetitions of a cell agree, except for the builder timing of background updates
		norm := map[string]bool{}
		for cl := range classes {
			norm[strings.Replace(strings.Replace(cl, "before=true", "before=*", 1), "before=false", "before=*", 1)] = true
		}
		if len(norm) > 1 {
			var ks []string
			for k, v := range classes {
				ks = append(ks, fmt.Sprintf("%s <- %v", k, v))
			}
			sort.Strings(ks)
			b.R.Violate(b, ci, "C03:differential:"+cell.State, fmt.Sprintf("cell %s: outcome differs between APIs/backends/repetitions: %s", cell, strings.Join(ks, " || ")), nil)
		}
	}
}

var c03CallerTTL = 2 * time.Hour

func c03Run(cfg foConfig, cell c03Cell, rng *rand.Rand, ctxVariant string, hostileDelete bool) (c03Obs, *foRun) {
	sc := newSched(false, "random", rng)
	sc.delayProb = 0
	r := newFoRun(cfg, [][]byte{[]byte("the-key")}, sc)
	if ctxVariant == "panic-first" {
		// history: an earlier Get of this key whose builder panicked (synchronous build of an absent entry), recovered by
		// its caller as an HTTP recovery middleware would do. Nothing is in flight afterwards.
		func() {
			defer func() { _ = recover() }()
			_, _, _ = r.fo.Get(bg, []byte("the-key"), func(context.Context) (string, error) { panic("builder panic") })
		}()
		r.mu.Lock()
		r.log = nil
		r.mu.Unlock()
	}
	var prepop string
	if cell.State != "absent" {
		prepop = r.prepopulate(rng, 0, cell.State)
	}
	if cell.FC {
		r.primeFailure(0)
	}
	r.script = func(int, int) buildOutcome {
		if hostileDelete {
			// the entry vanishes while the build is running (as a concurrent Delete / cleanup would do it)
			_ = r.be.Delete(bg, []byte("the-key"))
		}
		return buildOutcome{OK: cell.BuildOK}
	}
	returned := make(chan struct{})
	go func() {
		sp := getSpec{Key: 0, PreCancel: ctxVariant == "precancel", Deadline: ctxVariant == "deadline"}
		if ctxVariant == "callerttl" {
			sp.CallerTTL = &c03CallerTTL
		}
		r.doGet(0, sp)
		close(returned)
	}()
	select {
	case <-returned:
	case <-time.After(6 * time.Second):
		// a lone Get with an instant builder: it can only be waiting for a key lock nobody is going to release
		if lk := r.fo.LockedKeys(); len(lk) > 0 {
			return c03Obs{Result: "blocked-on-leftover-key-lock", Backend: "-", Locked: len(lk)}, r
		}
		return c03Obs{Result: "inconclusive-timeout", Backend: "-"}, r
	}
	for dl := time.Now().Add(3 * time.Second); time.Now().Before(dl); {
		if len(r.fo.LockedKeys()) == 0 {
			break
		}
		time.Sleep(50 * time.Microsecond)
	}
	var o c03Obs
	log := r.snapshotLog()
	var ret foEvent
	var enterSeq int64 = -1
	var newTok string
	for _, e := range log {
		switch e.Kind {
		case "get.ret":
			ret = e
		case "build.enter":
			o.Builds++
			if enterSeq < 0 {
				enterSeq = e.Seq
			}
		case "build.exit":
			if e.Val != "" {
				newTok = e.Val
			}
		}
	}
	o.BuiltBeforeRet = enterSeq >= 0 && enterSeq < ret.Seq
	switch {
	case ret.ErrKind == "build" && ret.ErrN < 0:
		o.Result = "cachederr"
	case ret.ErrKind == "build":
		o.Result = "builderr"
	case ret.ErrKind != "":
		o.Result = "other:" + ret.Err
	case ret.Zero:
		o.Result = "zero"
	case ret.Val == prepop:
		o.Result = "prepop"
	case ret.Val == newTok && newTok != "":
		o.Result = "new"
	default:
		o.Result = "other:" + ret.Val
	}
	rv, err := r.be.Read(bg, []byte("the-key"))
	v, _ := tokOf(rv)
	switch {
	case err == nil && v == newTok && newTok != "":
		o.Backend = "new"
	case err == nil && v == prepop:
		o.Backend = "prepop-fresh"
	case errClass(err) == "notfound":
		o.Backend = "absent"
	case errClass(err) == "expired":
		sv, _, _ := r.be.Expired(err)
		if st, _ := tokOf(sv); st == prepop {
			o.Backend = "prepop-expired"
		} else {
			o.Backend = "other-expired"
		}
	default:
		o.Backend = fmt.Sprintf("other:%v/%v", v, err)
	}
	if ctxVariant == "callerttl" {
		// the caller asked for 2h: its context still says so, and a rebuilt value is fresh for about that long
		if time.Duration(ret.TTL) != c03CallerTTL {
			o.Result += fmt.Sprintf("+caller-ctx-ttl-altered-to-%v", time.Duration(ret.TTL))
		}
		if o.Backend == "new" {
			r.be.Walk(func(k []byte, _ interface{}, exp time.Time) error {
				if string(k) == "the-key" && time.Until(exp) < c03CallerTTL/2 {
					o.Backend = fmt.Sprintf("new-but-expires-in-%v", time.Until(exp).Round(time.Second))
				}
				return nil
			})
		}
	}
	r.fo.ErrorsWalk(func(k []byte, e error, exp time.Time) {
		if string(k) == "the-key" && exp.After(time.Now()) {
			o.FailCached = true
		}
	})
	o.Locked = len(r.fo.LockedKeys())
	// in background mode the builder may or may not have been entered before the Get returned; normalise for sync paths only
	return o, r
}
