package main

import (
	"bytes"
	"fmt"
	"math/rand"
	"sync"
	"sync/atomic"
	"time"

	"github.com/bool64/cache"
)

// Volume families: tens of thousands of entries, i.e. dozens to hundreds per shard. Behaviour that depends on the number of
// entries in one shard (batched walks, bulk deletion, map rebuilds) is out of reach of the small alphabets used elsewhere.

type bulkTruth struct {
	val     map[string]string
	expired map[string]bool
}

func bulkPopulate(be Backend, rng *rand.Rand, n int, prefix string) bulkTruth {
	t := bulkTruth{val: make(map[string]string, n), expired: map[string]bool{}}
	exp := cache.WithTTL(bg, -time.Minute, false)
	for i := 0; i < n; i++ {
		k := fmt.Sprintf("%s-%d", prefix, i)
		v := fmt.Sprintf("v%d", i)
		if i%16 == 5 {
			_ = be.Write(exp, []byte(k), v)
			t.expired[k] = true
		} else {
			_ = be.Write(bg, []byte(k), v)
		}
		t.val[k] = v
	}
	return t
}

// bulkWalkProblems walks the cache and compares with the ground truth: every entry exactly once, right value.
func bulkWalkProblems(be Backend, t bulkTruth, only func(k string) bool) string {
	seen := make(map[string]int, len(t.val))
	wrong := ""
	n, err := be.Walk(func(k []byte, v interface{}, _ time.Time) error {
		ks := string(k)
		if only != nil && !only(ks) {
			return nil
		}
		seen[ks]++
		if want, ok := t.val[ks]; !ok {
			wrong = fmt.Sprintf("foreign key %q reported", ks)
		} else if v != want {
			wrong = fmt.Sprintf("key %q reported with value %v, want %v", ks, v, want)
		}
		return nil
	})
	if err != nil {
		return "walk error: " + err.Error()
	}
	if wrong != "" {
		return wrong
	}
	missing, dup := 0, 0
	ex := ""
	for k := range t.val {
		switch c := seen[k]; {
		case c == 0:
			missing++
			ex = k
		case c > 1:
			dup++
			ex = k
		}
	}
	if missing > 0 || dup > 0 {
		return fmt.Sprintf("%d of %d entries not visited, %d visited more than once (e.g. %q); Walk returned n=%d", missing, len(t.val), dup, ex, n)
	}
	if only == nil && n != len(t.val) {
		return fmt.Sprintf("Walk returned n=%d for %d entries", n, len(t.val))
	}
	return ""
}

// c07Bulk: sequential model at volume.
func c07Bulk(b *Batch, idx int) {
	rng := rand.New(rand.NewSource(b.CaseSeed(idx)))
	kind := backendKinds[rng.Intn(3)]
	strat := c16Strategies[rng.Intn(3)]
	n := 9000 + rng.Intn(36000)
	be := newBackend(kind, cache.Config{EvictionStrategy: strat})
	t := bulkPopulate(be, rng, n, "bulk")
	b.R.Eval()
	b.R.Count("bulk.cases", 1)
	b.R.Count("bulk.entries", int64(n))
	b.R.Nontrivial(fmt.Sprintf("bulk/%s/strategy=%d/n>=%d", kind, strat, n/9000*9000))
	fail := func(what, msg string) {
		b.R.Violate(b, idx, "C07:"+kind+":bulk:"+what, fmt.Sprintf("bulk %s with %d entries: %s", kind, n, msg), map[string]interface{}{"backend": kind, "entries": n, "strategy": int(strat)})
	}
	if l := be.Len(); l != n {
		fail("len", fmt.Sprintf("Len=%d", l))
	}
	if p := bulkWalkProblems(be, t, nil); p != "" {
		fail("walk", p)
	}
	// reads of a sample, deletes of a sample, walk again
	deleted := 0
	for i := 0; i < n; i += 7 {
		k := fmt.Sprintf("bulk-%d", i)
		v, err := be.Read(bg, []byte(k))
		if t.expired[k] {
			if sv, _, ok := be.Expired(err); !ok || sv != t.val[k] {
				fail("read", fmt.Sprintf("expired key %s reads (%v,%v)", k, v, err))
				break
			}
		} else if err != nil || v != t.val[k] {
			fail("read", fmt.Sprintf("key %s reads (%v,%v)", k, v, err))
			break
		}
		if i%21 == 0 {
			if err := be.Delete(bg, []byte(k)); err != nil {
				fail("delete", fmt.Sprintf("Delete(%s) = %v", k, err))
			}
			delete(t.val, k)
			deleted++
		}
	}
	if l := be.Len(); l != n-deleted {
		fail("len", fmt.Sprintf("Len=%d after %d deletes of %d", l, deleted, n))
	}
	if p := bulkWalkProblems(be, t, nil); p != "" {
		fail("walk-after-deletes", p)
	}
	be.ExpireAll(bg)
	if p := bulkWalkProblems(be, t, nil); p != "" {
		fail("walk-after-expireall", p)
	}
	be.DeleteAll(bg)
	if l := be.Len(); l != 0 {
		fail("len", fmt.Sprintf("Len=%d after DeleteAll", l))
	}
}

// c08BulkWalk: "Walk visits every entry that exists unchanged for the whole walk exactly once" at volume, while other
// goroutines keep writing and deleting other keys (also in the same shards).
func c08BulkWalk(b *Batch, idx int) {
	rng := rand.New(rand.NewSource(b.CaseSeed(idx)))
	kind := backendKinds[(idx+b.Index)%3]
	n := 14000 + rng.Intn(40000)
	be := newBackend(kind, cache.Config{})
	t := bulkPopulate(be, rng, n, "stable")
	// history: a walk aborted by its callback, then some stable entries are deleted (nothing of them may be reported later)
	stopAt := 10 + rng.Intn(200)
	seenN := 0
	_, _ = be.Walk(func([]byte, interface{}, time.Time) error {
		if seenN++; seenN > stopAt {
			return errWalkStop
		}
		return nil
	})
	for i := 0; i < n; i += 97 {
		k := fmt.Sprintf("stable-%d", i)
		if be.Delete(bg, []byte(k)) == nil {
			delete(t.val, k)
		}
	}
	problem := bulkWalkProblems(be, t, func(k string) bool { return k[0] == 's' }) // right after the aborted walk, nothing else running
	stop := make(chan struct{})
	var wg sync.WaitGroup
	var churn int64
	for w := 0; w < 3; w++ {
		wg.Add(1)
		go func(w int) {
			defer wg.Done()
			r := rand.New(rand.NewSource(int64(w) + b.CaseSeed(idx)))
			for {
				select {
				case <-stop:
					return
				default:
				}
				k := []byte(fmt.Sprintf("hot-%d-%d", w, r.Intn(5000)))
				if r.Intn(3) == 0 {
					_ = be.Delete(bg, k)
				} else {
					_ = be.Write(bg, k, "hot")
				}
				atomic.AddInt64(&churn, 1)
			}
		}(w)
	}
	walks := 2
	for i := 0; i < walks && problem == ""; i++ {
		problem = bulkWalkProblems(be, t, func(k string) bool { return k[0] == 's' })
	}
	close(stop)
	wg.Wait()
	b.R.Eval()
	b.R.Count("bulkwalk.cases", 1)
	b.R.Count("bulkwalk.stable_entries", int64(n))
	b.R.Count("bulkwalk.concurrent_mutations", atomic.LoadInt64(&churn))
	b.R.Nontrivial(fmt.Sprintf("bulkwalk/%s/n>=%d", kind, n/7000*7000))
	if problem != "" {
		b.R.Violate(b, idx, "C08:"+kind+":bulk-walk", fmt.Sprintf("%s with %d stable entries (never touched during the walk) and concurrent writers on other keys: %s", kind, n, problem), map[string]interface{}{"backend": kind, "entries": n})
	}
}

// c13Bulk: Dump -> Restore at volume, judged against what was written (not against a Walk of the source).
func c13Bulk(b *Batch, idx int) {
	rng := rand.New(rand.NewSource(b.CaseSeed(idx)))
	srcKind := backendKinds[rng.Intn(3)]
	dstKind := srcKind
	if srcKind != "ShardedMapOf" && rng.Intn(2) == 0 {
		dstKind = []string{"ShardedMap", "SyncMap"}[rng.Intn(2)]
	}
	n := 9000 + rng.Intn(36000)
	src := newBackend(srcKind, cache.Config{})
	t := bulkPopulate(src, rng, n, "dump")
	dst := newBackend(dstKind, cache.Config{})
	var buf bytes.Buffer
	dn, derr := src.Dump(&buf)
	rn, rerr := dst.Restore(&buf)
	b.R.Eval()
	b.R.Count("bulk.transfers", 1)
	b.R.Count("entries.compared", int64(n))
	b.R.Nontrivial(fmt.Sprintf("bulk/%s->%s/n>=%d", srcKind, dstKind, n/9000*9000))
	fail := func(what, msg string) {
		b.R.Violate(b, idx, "C13:"+srcKind+"->"+dstKind+":bulk:"+what, fmt.Sprintf("%s->%s with %d entries: %s", srcKind, dstKind, n, msg), map[string]interface{}{"entries": n})
	}
	if derr != nil || rerr != nil {
		fail("error", fmt.Sprintf("Dump err=%v Restore err=%v", derr, rerr))
		return
	}
	if dn != n || rn != n {
		fail("count", fmt.Sprintf("Dump reported %d, Restore %d", dn, rn))
	}
	if l := dst.Len(); l != n {
		fail("len", fmt.Sprintf("target Len=%d", l))
	}
	if p := bulkWalkProblems(dst, t, nil); p != "" {
		fail("content", p)
	}
	for i := 0; i < n; i += 11 {
		k := fmt.Sprintf("dump-%d", i)
		v, err := dst.Read(bg, []byte(k))
		if t.expired[k] {
			if sv, _, ok := dst.Expired(err); !ok || sv != t.val[k] {
				fail("read", fmt.Sprintf("expired key %s reads (%v,%v) in the target", k, v, err))
				break
			}
		} else if err != nil || v != t.val[k] {
			fail("read", fmt.Sprintf("key %s reads (%v,%v) in the target", k, v, err))
			break
		}
	}
}
