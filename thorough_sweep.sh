#!/bin/bash
cd /verif
for i in 01 02 03 04 05 06 07 08 09 10 11 12 13 14 15 17 18 16; do
  s=$(date +%s)
  VERIF_NO_EVIDENCE=1 VERIF_SEED=${SWEEP_SEED:-2} ./check C$i thorough > /verif/.thorough_C$i.log 2>&1
  rc=$?
  echo "C$i rc=$rc $(( $(date +%s)-s ))s $(grep -m1 'evaluations=' /verif/.thorough_C$i.log)"
done
