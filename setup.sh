#!/bin/bash
# Builds the harness offline from files on disk (normal and -race binaries).
set -eu
cd "$(dirname "$0")"
export GOFLAGS=-mod=mod GOPROXY=off GOSUMDB=off GOTOOLCHAIN=local
mkdir -p bin evidence replays
( cd harness && go build -tags verif -o ../bin/vh . )
( cd harness && go build -race -tags verif -o ../bin/vh-race . )
echo setup ok
