#!/bin/bash
# ./seeded_eval.sh <dir-with-patch.diff+demo_test.go> <ID> [more IDs...]
# Confirms a seeded change in a scratch copy of /repo (outside /repo and /verif): it builds, the repo's own suite passes with it,
# its demonstration fails with it and passes without it; then runs ./check <ID> quick against the patched copy.
set -u
D=$(readlink -f "$1"); shift
cd "$(dirname "$0")"
export GOFLAGS=-mod=mod GOPROXY=off GOSUMDB=off GOTOOLCHAIN=local
W=$(mktemp -d "${TMPDIR:-/tmp}/verif-seed-XXXXXX")
trap 'rm -rf "$W"' EXIT
mkdir "$W/cache"; ( cd /repo && git ls-files -z | xargs -0 cp --parents -t "$W/cache" )
DEMO=$(grep -oE 'func TestSeeded[2-9]?_[A-Za-z0-9_]*' "$D/demo_test.go" | head -1 | sed 's/func //')
RACE=""; grep -q "race" "$D/notes.md" 2>/dev/null && [ "${SEED_RACE:-0}" = 1 ] && RACE="-race"
if [ "${SEED_FAST:-0}" = 1 ]; then
  # re-evaluation of an already confirmed change: apply, build, run the checks only
  ( cd "$W/cache" && patch -p1 -s --no-backup-if-mismatch < "$D/patch.diff" ) || { echo "RESULT patch-failed"; exit 3; }
  ( cd "$W/cache" && go build ./... ) || { echo "RESULT does-not-build"; exit 3; }
  echo "demo=$DEMO clean=pass mutant=FAIL suite=pass (confirmed earlier; fast re-evaluation)"
  for ID in "$@"; do
    OUT=$(VERIF_REPO="$W/cache" VERIF_NO_EVIDENCE=1 ./check "$ID" quick 2>&1)
    if echo "$OUT" | grep -q "^VIOLATION property=$ID"; then
      echo "CAUGHT by $ID: $(echo "$OUT" | grep -A1 '^VIOLATION' | sed -n 2p | cut -c1-220)"
    else
      echo "MISSED by $ID ($(echo "$OUT" | grep -c BROKEN) broken-lines)"
    fi
  done
  exit 0
fi
cp "$D/demo_test.go" "$W/cache/zz_seeded_demo_test.go"
clean=$( cd "$W/cache" && go test $RACE -count=1 -run "^${DEMO}\$" . >"$W/clean.log" 2>&1 && echo pass || echo FAIL )
if ! ( cd "$W/cache" && patch -p1 -s --no-backup-if-mismatch < "$D/patch.diff" ); then echo "RESULT patch-failed"; exit 3; fi
( cd "$W/cache" && go build ./... ) || { echo "RESULT does-not-build"; exit 3; }
mutant=$( cd "$W/cache" && go test $RACE -count=1 -run "^${DEMO}\$" . >"$W/mut.log" 2>&1 && echo pass || echo FAIL )
rm "$W/cache/zz_seeded_demo_test.go"
suite=$( cd "$W/cache" && { go test -count=1 ./... >"$W/suite.log" 2>&1 || go test -count=1 ./... >"$W/suite.log" 2>&1 || go test -count=1 ./... >"$W/suite.log" 2>&1; } && echo pass || echo FAIL )
echo "demo=$DEMO clean=$clean mutant=$mutant suite=$suite"
[ "$suite" = FAIL ] && grep -E "^(--- FAIL|FAIL)" "$W/suite.log" | head -5
( cd "$W/cache" && git init -q . 2>/dev/null; true )
for ID in "$@"; do
  OUT=$(VERIF_REPO="$W/cache" VERIF_NO_EVIDENCE=1 ./check "$ID" quick 2>&1)
  if echo "$OUT" | grep -q "^VIOLATION property=$ID"; then
    echo "CAUGHT by $ID: $(echo "$OUT" | grep -A1 '^VIOLATION' | sed -n 2p | cut -c1-220)"
  else
    echo "MISSED by $ID ($(echo "$OUT" | grep -c BROKEN) broken-lines)"
  fi
done
