#!/usr/bin/env python3
"""Evaluates every seeded change under /tmp/seed-out/C??/{a,b} (or already stored under /verif/seeded) and records it.
usage: seeded_all.py [--stored] [ID-filter]"""
import os,sys,json,subprocess,shutil,re,concurrent.futures
EXTRA={'C01':['C04'],'C02':['C04','C09'],'C04':['C01','C02'],'C09':['C04','C07'],'C07':['C10'],'C10':['C07'],'C12':['C11'],'C11':['C12'],'C13':['C14'],'C08':['C07','C16'],'C16':['C08'],'C18':['C05'],'C05':['C03'],'C03':['C02'],'C15':['C16'],'C06':[],'C14':['C13'],'C17':[]}
stored='--stored' in sys.argv
round2='--round2' in sys.argv
round3='--round3' in sys.argv
round4='--round4' in sys.argv
round5='--round5' in sys.argv
round6='--round6' in sys.argv
round7='--round7' in sys.argv
round8='--round8' in sys.argv
flt=[a for a in sys.argv[1:] if not a.startswith('--')]
jobs=[]
base='/verif/seeded' if stored else ('/tmp/seed8-out' if round8 else '/tmp/seed7-out' if round7 else '/tmp/seed6-out' if round6 else '/tmp/seed5-out' if round5 else '/tmp/seed4-out' if round4 else '/tmp/seed3-out' if round3 else '/tmp/seed2-out' if round2 else '/tmp/seed-out')
for d in sorted(os.listdir(base)):
    if stored:
        m=re.match(r'(C\d\d)-([abcdefghijklmnop])$',d)
        if not m: continue
        pid,x=m.groups(); path=os.path.join(base,d)
        jobs.append((pid,x,path))
    else:
        if not re.match(r'C\d\d$',d): continue
        for x in 'ab':
            path=os.path.join(base,d,x)
            if all(os.path.exists(os.path.join(path,f)) for f in ('patch.diff','demo_test.go','notes.md')):
                jobs.append((d,x,path))
jobs=[j for j in jobs if not flt or j[0] in flt]
def superseded(path):
    try: return 'superseded_by_fix' in json.load(open(os.path.join(path,'meta.json')))
    except Exception: return False
if stored:
    for j in jobs:
        if superseded(j[2]): print('=====',j[0],j[1],'\nSUPERSEDED by a later fix: skipped')
    jobs=[j for j in jobs if not superseded(j[2])]
def run(job):
    pid,x,path=job
    ids=[pid]+EXTRA.get(pid,[])
    if os.environ.get('SEED_FAST')=='1':
        ids=[pid]
    out=subprocess.run(['/verif/seeded_eval.sh',path]+ids,capture_output=True,text=True).stdout
    return job,out
with concurrent.futures.ThreadPoolExecutor(5) as ex:
    for job,out in ex.map(run,jobs):
        pid,x,path=job
        print('=====',pid,x); print(out.strip())
        m=re.search(r'clean=(\w+) mutant=(\w+) suite=(\w+)',out)
        confirmed=bool(m) and m.group(1)=='pass' and m.group(2)=='FAIL' and m.group(3)=='pass'
        caught=re.findall(r'CAUGHT by (C\d\d): *(.*)',out)
        missed=re.findall(r'MISSED by (C\d\d)',out)
        dst='/verif/seeded/%s-%s'%(pid,({'a':'o','b':'p'}[x] if round8 else {'a':'m','b':'n'}[x] if round7 else {'a':'k','b':'l'}[x] if round6 else {'a':'i','b':'j'}[x] if round5 else {'a':'g','b':'h'}[x] if round4 else {'a':'e','b':'f'}[x] if round3 else {'a':'c','b':'d'}[x] if round2 else x))
        if not stored:
            if not confirmed:
                print('NOT CONFIRMED - not stored'); continue
            os.makedirs(dst,exist_ok=True)
            for f in ('patch.diff','demo_test.go','notes.md'):
                shutil.copy(os.path.join(path,f),os.path.join(dst,f))
        if os.environ.get('SEED_FAST')=='1' and os.path.exists(os.path.join(dst,'meta.json')):
            old=json.load(open(os.path.join(dst,'meta.json')))
            old['owning_check_last_verdict']='CAUGHT' if any(c==pid for c,_ in caught) else 'MISSED'
            for c,msg in caught:
                old.setdefault('caught_by',{})[c]=msg[:200]
                if c in old.get('missed_by',[]): old['missed_by'].remove(c)
            json.dump(old,open(os.path.join(dst,'meta.json'),'w'),indent=1)
            continue
        meta={'property':pid,'variant':x,'breaks':pid,
              'needs_to_manifest':open(os.path.join(dst if not stored else path,'notes.md')).read()[:1500],
              'confirmed':{'demo_passes_on_clean_tree':m.group(1)=='pass' if m else None,'demo_fails_with_change':m.group(2)=='FAIL' if m else None,'repo_suite_passes_with_change':m.group(3)=='pass' if m else None},
              'ran':'./seeded_eval.sh %s %s (scratch copy of /repo under $TMPDIR, patch applied, go build, demo with/without, go test ./..., then ./check <ID> quick with VERIF_REPO=<copy>)'%(dst,' '.join([pid]+EXTRA.get(pid,[]))),
              'caught_by':{c:msg[:200] for c,msg in caught},'missed_by':missed}
        json.dump(meta,open(os.path.join(dst,'meta.json'),'w'),indent=1)
